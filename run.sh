#!/bin/bash
# run.sh <property id> quick|thorough      decide one property on /repo's working tree
# run.sh setup                             build the overlay virtualenv (offline)
# run.sh replay <file>                     replay a recorded violation on the real code
set -u
HERE="$(cd "$(dirname "$0")" && pwd)"
VENV="$HERE/.venv"
export PYTHONHASHSEED=0
export PIP_NO_INDEX=1
setup() {
  if [ ! -x "$VENV/bin/python" ] || ! "$VENV/bin/python" -c "import z3, numpy, mip" >/dev/null 2>&1; then
    rm -rf "$VENV"
    /venv/bin/python -m venv "$VENV" || exit 3
    SP="$("$VENV/bin/python" -c 'import sysconfig; print(sysconfig.get_paths()["purelib"])')"
    echo "import site; site.addsitedir('/venv/lib/python3.12/site-packages')" > "$SP/zz_repo_env.pth"
    "$VENV/bin/pip" install -q --no-index --find-links /opt/veriftools/wheels z3-solver >/dev/null 2>&1 || { echo "cannot install z3-solver from the wheelhouse" >&2; exit 3; }
  fi
}
case "${1:-}" in
  setup) setup; "$VENV/bin/python" -c "import z3; print('z3', z3.get_version_string())";;
  replay) setup; cd "$HERE"; exec "$VENV/bin/python" -m harness.replay "$2";;
  *) setup; cd "$HERE"; exec "$VENV/bin/python" check.py "$1" "${2:-quick}";;
esac
