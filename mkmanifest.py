"""Regenerate MANIFEST.json from the harness modules that exist (python3 mkmanifest.py)."""
import json, os, importlib.util
HERE = os.path.dirname(os.path.abspath(__file__))
props = [json.loads(l) for l in open(os.path.join(HERE, 'properties.jsonl'))]
META = json.load(open(os.path.join(HERE, 'manifest_meta.json')))
checks = []; na = []
for p in props:
    pid = p['id']
    m = META.get(pid)
    if m and os.path.exists(os.path.join(HERE, 'harness', pid.lower() + '.py')) and not m.get('not_applicable'):
        checks.append({
            'property_id': pid,
            'quick_cmd': './run.sh %s quick' % pid,
            'thorough_cmd': './run.sh %s thorough' % pid,
            'evidence_file': 'evidence/%s.json' % pid,
            'replay_cmd_template': './run.sh replay {path}',
            'engine': 'pathsym',
            'level_claimed': {'category': 'model_checking', 'text': m['level_text'], 'design_ref': m.get('design_ref', 'DESIGN.md section 4')},
            'level_note': m['level_note'],
            'technique': m.get('technique', 'bounded symbolic execution of the real prtpy code, every path decided by z3 (QF_LIA); counterexamples replayed on the real code'),
        })
    else:
        na.append({'property_id': pid, 'reason': (m or {}).get('not_applicable', 'harness not built yet in this session (in progress; see DESIGN.md section 4 for the planned obligations)')})
man = {
    'version': 1,
    'setup_cmd': './run.sh setup',
    'hooks': {'guard': 'ERELSGL_PRTPY_VERIF', 'enable': 'none needed: the harness replaces module attributes (numpy, time, mip) from outside; no source hooks in /repo',
              'baseline_off_cmd': 'cd /repo && /venv/bin/python -m pytest -ra -q -p no:cacheprovider --timeout=900 --continue-on-collection-errors',
              'source_commits': [], 'add_only': True},
    'engines': [{'name': 'pathsym', 'path': 'pathsym/', 'serves_properties': [c['property_id'] for c in checks],
                 'kind_free_text': 'purpose-built path-exploring symbolic executor for Python (operator-overloaded exact rationals over z3 integer variables, depth-first exploration with decision replay, dynamic work splitting over 16 processes); z3 5.1 decides every branch and every obligation'}],
    'checks': checks,
    'not_applicable': na,
    'notes': 'Every check re-executes /repo\'s current sources symbolically (nothing is cached between runs). Exit 2 = harness problem (never reported as success or as a violation).',
}
json.dump(man, open(os.path.join(HERE, 'MANIFEST.json'), 'w'), indent=1)
print('checks:', [c['property_id'] for c in checks], 'not applicable:', len(na))
