"""Textbook reference transcriptions used by C14 (and as baselines elsewhere).

Written from the definitions cited in prtpy's documentation, on plain Python lists of numbers; they
share no code with prtpy.  Every function takes the VALUES in input order and returns a list of bins,
each bin a list of values.  They run on symbolic numbers as well as on ints (only + and comparisons).
"""


def _desc(vals):
    """non-increasing order (insertion sort; stable)"""
    res = []
    for v in vals:
        i = len(res)
        while i > 0 and res[i - 1] < v:
            i -= 1
        res.insert(i, v)
    return res


def total(b):
    t = 0
    for v in b:
        t = t + v
    return t


def lpt(vals, k):
    """Graham's LPT: items in non-increasing order, each to a currently least-loaded bin"""
    bins = [[] for _ in range(k)]
    load = [0] * k
    for v in _desc(vals):
        j = 0
        for i in range(1, k):
            if load[i] < load[j]:
                j = i
        bins[j].append(v); load[j] = load[j] + v
    return bins


def round_robin(vals, k):
    """sorted items dealt cyclically"""
    bins = [[] for _ in range(k)]
    for i, v in enumerate(_desc(vals)):
        bins[i % k].append(v)
    return bins


def first_fit(vals, B):
    bins = []
    for v in vals:
        for b in bins:
            if total(b) + v <= B:
                b.append(v); break
        else:
            bins.append([v])
    return bins


def first_fit_decreasing(vals, B):
    return first_fit(_desc(vals), B)


def best_fit(vals, B):
    """the fullest bin in which the item still fits"""
    bins = []
    for v in vals:
        best = None
        for b in bins:
            s = total(b) + v
            if s <= B and (best is None or s > best[0]):
                best = (s, b)
        if best is not None:
            best[1].append(v)
        else:
            bins.append([v])
    return bins


def best_fit_decreasing(vals, B):
    return best_fit(_desc(vals), B)


def cover_next_fit_decreasing(vals, B):
    """items in non-increasing order into the current bin until it is covered; the unfilled last bin is dropped"""
    done = []; cur = []
    for v in _desc(vals):
        cur.append(v)
        if total(cur) >= B:
            done.append(cur); cur = []
    return done


def cover_two_thirds(vals, B):
    """Csirik, Frenk, Labbe, Zhang (1999), simple heuristic: open a bin with the largest remaining item,
    then add the smallest remaining items until the bin is covered"""
    rest = _desc(vals)
    done = []
    while rest:
        cur = [rest.pop(0)]
        while rest and total(cur) < B:
            cur.append(rest.pop())
        if total(cur) >= B:
            done.append(cur)
    return done


def cover_three_quarters(vals, B):
    """Csirik et al. (1999), improved heuristic, as documented in prtpy: classes X (2v >= B), Y (3v >= B > 2v... i.e.
    B/3 <= v < B/2), Z (3v < B).  While Z and X+Y are both non-empty: start the bin with the largest X item if it is at
    least the total of the two largest Y items, else with those (up to) two Y items; then add the smallest Z items until
    covered.  When Z runs out the rest of X, then of Y, is added in non-increasing order to the current bin and further
    bins (next fit); when X and Y run out the rest of Z is."""
    srt = _desc(vals)
    X = [v for v in srt if 2 * v >= B]
    Y = [v for v in srt if 3 * v >= B and 2 * v < B]
    Z = [v for v in srt if 3 * v < B]
    done = []; cur = []

    def next_fit(seq):
        nonlocal cur
        for v in seq:
            cur.append(v)
            if total(cur) >= B:
                done.append(cur); cur = []

    while True:
        if not Z:
            next_fit(X); next_fit(Y); break
        if not X and not Y:
            next_fit(Z); break
        head = X[:1]; pair = Y[:2]
        if total(head) >= total(pair):
            cur.extend(head); del X[:1]
        else:
            cur.extend(pair); del Y[:len(pair)]
        while Z and total(cur) < B:
            cur.append(Z.pop())
        if total(cur) >= B:
            done.append(cur); cur = []
    return done
