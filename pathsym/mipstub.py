"""Contract stub for the `mip` package (stub S6 of DESIGN.md).

Records the model that prtpy's integer_programming.optimal builds (variables, linear constraints with
SymNum coefficients, objective).  optimize() answers OPTIMAL with ANY integer assignment that satisfies
every recorded constraint and is optimal for the recorded objective: the engine branches over the
finitely many assignments of the shape, each admitted only under the solver-checked condition that it is
feasible and optimal; if no assignment is feasible the status is INFEASIBLE.
"""
import enum, itertools, z3
from fractions import Fraction
from .engine import SymNum, ctx, PathAbort, zq

INTEGER = 'I'
BINARY = 'B'
CONTINUOUS = 'C'
UB = 1


def reset(ub=None):
    global UB
    Var.n = 0
    if ub is not None:
        UB = ub


class OptimizationStatus(enum.Enum):
    OPTIMAL = 0
    INFEASIBLE = 1
    FEASIBLE = 3
    NO_SOLUTION_FOUND = 5


def _isnum(o):
    return isinstance(o, (int, float, Fraction, SymNum)) and not isinstance(o, bool)


class LinExpr:
    def __init__(self, terms=None, const=0):
        self.terms = dict(terms or {}); self.const = const

    @staticmethod
    def co(o):
        if isinstance(o, LinExpr): return o
        if isinstance(o, Var): return LinExpr({o: 1})
        return LinExpr({}, o)

    def __add__(self, o):
        o = LinExpr.co(o); t = dict(self.terms)
        for v, c in o.terms.items(): t[v] = t.get(v, 0) + c
        return LinExpr(t, self.const + o.const)
    __radd__ = __add__
    def __neg__(self): return LinExpr({v: -c for v, c in self.terms.items()}, -self.const)
    def __sub__(self, o): return self + (-LinExpr.co(o))
    def __rsub__(self, o): return LinExpr.co(o) + (-self)

    def __mul__(self, o):
        if not _isnum(o): return NotImplemented
        return LinExpr({v: c * o for v, c in self.terms.items()}, self.const * o)
    __rmul__ = __mul__

    def __truediv__(self, o):
        if isinstance(o, SymNum) and o.const() is None:
            raise NotImplementedError("division of a linear expression by a symbolic value")
        f = Fraction(o) if not isinstance(o, SymNum) else o.const()
        return self * (1 / f)

    def __ge__(self, o): return Constr(self - LinExpr.co(o), '>=')
    def __le__(self, o): return Constr(self - LinExpr.co(o), '<=')
    def __eq__(self, o): return Constr(self - LinExpr.co(o), '==')
    __hash__ = None

    def value(self, a):
        tot = self.const
        for v, c in self.terms.items():
            if a[v]: tot = tot + c * a[v]
        return tot

    def concrete(self):
        return all(not isinstance(c, SymNum) or c.const() is not None for c in list(self.terms.values()) + [self.const])


class Var:
    n = 0

    def __init__(self):
        Var.n += 1; self.id = Var.n; self.x = None

    def __hash__(self): return self.id
    def __mul__(self, o):
        if not _isnum(o): return NotImplemented
        return LinExpr({self: o})
    __rmul__ = __mul__
    def __add__(self, o): return LinExpr({self: 1}) + o
    __radd__ = __add__
    def __sub__(self, o): return LinExpr({self: 1}) - o
    def __rsub__(self, o): return LinExpr.co(o) - LinExpr({self: 1})
    def __neg__(self): return LinExpr({self: -1})
    def __ge__(self, o): return LinExpr({self: 1}) >= o
    def __le__(self, o): return LinExpr({self: 1}) <= o
    def __eq__(self, o): return (self is o) if isinstance(o, Var) else (LinExpr({self: 1}) == o)


class Constr:
    def __init__(self, e, s): self.expr = e; self.sense = s

    def holds(self, a):
        """True / False / z3 condition"""
        v = self.expr.value(a)
        k = v.const() if isinstance(v, SymNum) else v
        if k is not None:
            return (k >= 0) if self.sense == '>=' else ((k <= 0) if self.sense == '<=' else (k == 0))
        n, d = zq(v)
        r = z3.simplify((n >= 0) if self.sense == '>=' else ((n <= 0) if self.sense == '<=' else (n == 0)))
        return True if z3.is_true(r) else (False if z3.is_false(r) else r)


class Objective:
    def __init__(self, e): self.expr = LinExpr.co(e)


def minimize(e): return Objective(e)
def maximize(e): return Objective(-LinExpr.co(e))


def xsum(l): return sum(l, LinExpr())


class Model:
    def __init__(self, name="", *a, **kw):
        self.vars = []; self.constrs = []; self.objective = None; self.verbose = 0
        self.max_mip_gap_abs = 1e-10; self.max_mip_gap = 1e-4      # the mip package's defaults; the absolute gap is part of the modelled contract

    def add_var(self, name="", var_type=None, lb=0, ub=None, **kw):
        v = Var(); self.vars.append(v); return v

    def __iadd__(self, c):
        if isinstance(c, Constr): self.constrs.append(c); return self
        if isinstance(c, Objective): self.objective = c; return self
        if isinstance(c, bool):
            # a constraint that was decided while it was built (e.g. a comparison of two numbers)
            self.constrs.append(Constr(LinExpr({}, 0 if c else -1), '>=')); return self
        raise TypeError("cannot add %r to a model" % (c,))

    def add_constr(self, c, name=""): self += c

    def optimize(self, max_seconds=None, **kw):
        c = ctx()
        conc = [con for con in self.constrs if con.expr.concrete()]
        symb = [con for con in self.constrs if not con.expr.concrete()]
        cands = []
        for vals in itertools.product(range(UB + 1), repeat=len(self.vars)):
            a = dict(zip(self.vars, vals))
            if any(con.holds(a) is not True for con in conc):
                continue
            feas = []; ok = True
            for con in symb:
                h = con.holds(a)
                if h is False: ok = False; break
                if h is not True: feas.append(h)
            if ok: cands.append((a, feas, zq(self.objective.expr.value(a) if self.objective else 0)))
        if not cands:
            return OptimizationStatus.INFEASIBLE
        from math import gcd
        D = 1
        for _, _, (_, od) in cands:
            D = D * od // gcd(D, od)
        vals = [on * (D // od) for _, _, (on, od) in cands]               # objective values over the common denominator D
        feasz = [z3.And(feas) if feas else z3.BoolVal(True) for _, feas, _ in cands]
        if not c.decide_z(z3.Or(feasz)):
            return OptimizationStatus.INFEASIBLE
        # opt = the least objective value among the feasible assignments (a fresh solver variable defined by a side fact)
        oi = c.fresh('opt')
        opt = c.zvars[oi]
        c.add_fact(('opt', oi, len(cands)), lambda: z3.And(z3.And([z3.Implies(f, opt <= v) for f, v in zip(feasz, vals)]),
                                                            z3.Or([z3.And(f, opt == v) for f, v in zip(feasz, vals)])))
        for (a, feas, _), f, v in zip(cands, feasz, vals):
            # a solver may stop at any feasible assignment whose objective is within max_mip_gap_abs of the optimum
            from fractions import Fraction as _F
            gap = _F(self.max_mip_gap_abs).limit_denominator(10 ** 6) if self.max_mip_gap_abs and self.max_mip_gap_abs > 1e-6 else None
            within = (v == opt) if gap is None else (v * gap.denominator <= opt * gap.denominator + gap.numerator * D)
            if c.decide_z(z3.And(f, within)):
                if c.choose('opt'):
                    for var, x in a.items(): var.x = float(x)
                    return OptimizationStatus.OPTIMAL
        raise PathAbort()     # the nondeterministic choice of the returned optimum is exhausted
