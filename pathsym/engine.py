"""pathsym: a small path-exploring symbolic executor for prtpy (see DESIGN.md section 2).

Symbolic numbers are exact rationals: an integer linear form over solver variables divided by a
positive concrete denominator.  Every comparison on a symbolic number asks the SMT solver (z3) whether
each side is feasible under the current path condition; one side is followed and the other is kept
for depth-first backtracking, which re-executes the real function from the start under the recorded
decision prefix.  All queries are QF_LIA.
"""
import z3, time, math, numbers
from fractions import Fraction
from math import gcd

SOLVER_TIMEOUT_MS = 20000


class PathAbort(BaseException):
    """engine control flow: abandon the current path (not an error, not a result)"""


class Unsupported(BaseException):
    """the code under execution did something with a symbolic value that the engine does not encode"""


class _Inf(Exception):
    def __init__(self, v): self.v = v


class _Reporting:
    """what a harness tells the runner about the current path"""

    def _init_reporting(self):
        self.findings = []        # findings of the current path
        self.outcome = None       # JSON-able summary of what the code returned on this path (evidence, trace validation)
        self.known = []           # [(finding id, z3 predicate over the inputs, kinds or None)] - known findings applicable to this job
        self.known_hits = {}

    def report(self, kind, detail='', cond=None):
        """a violation on this path.  cond: z3 boolean (over the variables) under which it occurs, None = whole path.
        Inputs covered by a known finding are excluded before the finding is raised."""
        import z3 as _z3
        known = [(fid, p) for fid, p, kinds in self.known if not kinds or kind in kinds]
        excl = [_z3.Not(p) for _, p in known]
        q = _z3.And([cond] + excl) if cond is not None else (_z3.And(excl) if excl else _z3.BoolVal(True))
        m = None
        if self.symbolic and self.zvars:
            # prefer a small witness: it stays inside S2 (sums far below 2^53), so it replays on the real float64 code
            for bound in (64, 10 ** 4, 10 ** 8):
                m = self.sat_with(_z3.And([q] + [v <= bound for v in self.zvars]))
                if m is not None and m != 'unknown': break
                m = None
        if m is None:
            m = self.sat_with(q)
        if m is None:
            # every failing input of this path is covered by a known finding (or the condition is infeasible)
            if known:
                for fid, p in known:
                    mm = self.sat_with(_z3.And(cond, p) if cond is not None else p)
                    if mm is not None and mm != 'unknown':
                        self.known_hits[fid] = self.known_hits.get(fid, 0) + 1
            return False
        self.findings.append({'kind': kind, 'detail': str(detail)[:600], 'values': None if m == 'unknown' else m,
                              'choices': self.choice_record() if m != 'unknown' else None, 'unknown': m == 'unknown'})
        return True

    def check(self, kind, zexpr, detail=''):
        """obligation: PC => zexpr.  Raises a finding with a model otherwise."""
        import z3 as _z3
        r = self.prove(zexpr)
        if r is None:
            return True
        if r == 'unknown':
            self.findings.append({'kind': kind, 'detail': 'solver answered unknown on the obligation', 'values': None, 'choices': None, 'unknown': True})
            return False
        self.report(kind, detail, cond=_z3.Not(zexpr))
        return False

    def choice_record(self):
        return []


class Ctx(_Reporting):
    cur = None
    symbolic = True

    def __init__(self):
        self.solver = z3.Solver()
        self.solver.set("timeout", SOLVER_TIMEOUT_MS)
        self.zvars = []           # index -> z3 Int const
        self.names = []
        self.nameidx = {}
        self.trail = []           # entries: [kind, payload, decision, alt_open, altmodel]
        self.pos = 0
        self.kept = 0             # number of trail entries already asserted in the solver
        self.scopes = []          # trail index of each pushed scope
        self.nchecks = 0; self.nmemo = 0; self.nmodel = 0; self.nunknown = 0
        self.solver_time = 0.0
        self.memo = {}
        self.model = None         # dict idx->int satisfying current PC, or None
        self.zcache = {}
        self.nfresh = 0
        self.forced = None; self.nforced = 0
        self.ns = {}              # names the harness exposes to known-finding predicates
        self.nobl = 0; self.ndischarged = 0
        self.path_fresh = {}
        self.dump = None          # optional list collecting (assertions sexpr, negated obligation) for cross-checks
        self._init_reporting()

    # ---- variables
    def newvar(self, name):
        i = self.nameidx.get(name)
        if i is not None:
            return i
        self.zvars.append(z3.Int(name)); self.names.append(name)
        self.nameidx[name] = len(self.zvars) - 1
        return len(self.zvars) - 1

    def num(self, idx):
        return SymNum({idx: 1}, 0, 1)

    def zatom(self, key):
        z = self.zcache.get(key)
        if z is None:
            coefs, k, op = key
            e = zsum_([c * self.zvars[i] for i, c in coefs]) + k if coefs else z3.IntVal(k)
            z = (e <= 0) if op == 'le' else (e == 0)
            self.zcache[key] = z
        return z

    def assume(self, z):
        """precondition; only legal in setup (before the first path)"""
        self.solver.add(z)

    def _check(self, *a, obligation=False):
        t = time.perf_counter()
        r = self.solver.check(*a)
        self._model_solver = self.solver
        if r == z3.unknown:
            # the incremental solver gave up (resource limit, incompleteness of an internal tactic): ask once more in a fresh solver
            reason = self.solver.reason_unknown()
            s2 = z3.Solver(); s2.set("timeout", 3 * SOLVER_TIMEOUT_MS)
            s2.add(self.solver.assertions()); s2.add(*[z3.simplify(x) for x in a])
            r = s2.check()
            self.nretries = getattr(self, 'nretries', 0) + 1
            if r == z3.unknown and obligation:
                r = self._ask_cvc5(s2)          # third opinion for an obligation: another solver on the same SMT-LIB text
            if r == z3.unknown:
                if obligation:
                    self.nunknown += 1
                else:
                    # a branch whose feasibility stays undecided is simply explored (over-approximation: sound for "holds on every path")
                    self.nunknown_branch = getattr(self, 'nunknown_branch', 0) + 1
                self.unknown_reasons = (getattr(self, 'unknown_reasons', []) + ['%s / %s' % (reason, s2.reason_unknown())])[:5]
            elif r == z3.sat:
                self._model_solver = s2
        self.solver_time += time.perf_counter() - t
        self.nchecks += 1
        return r

    def _ask_cvc5(self, s2):
        """unsat from the cvc5 binary discharges an obligation that z3 could not decide; anything else leaves it unknown"""
        import subprocess, tempfile, os, shutil
        exe = shutil.which('cvc5')
        if not exe:
            return z3.unknown
        fd, path = tempfile.mkstemp(suffix='.smt2', prefix='pathsym_ob_')
        try:
            with os.fdopen(fd, 'w') as fh:
                fh.write('(set-logic ALL)\n' + s2.to_smt2())
            p = subprocess.run([exe, '--lang=smt2', '--tlimit=120000', path], capture_output=True, text=True, timeout=150)
            first = (p.stdout.strip().split('\n') or [''])[0].strip()
            if first == 'unsat' and '(error' not in p.stdout + p.stderr:
                self.ncvc5 = getattr(self, 'ncvc5', 0) + 1
                return z3.unsat
        except Exception:
            pass
        finally:
            try: os.unlink(path)
            except OSError: pass
        return z3.unknown

    # ---- path lifecycle
    def start_path(self):
        self.pos = 0
        self.findings = []; self.outcome = None
        self.memo = {}
        self.nfresh = 0
        self.nforced = 0 if not self.trail else self.nforced
        if self.kept == 0:
            self.model = None

    def _extract_model(self):
        m = getattr(self, '_model_solver', self.solver).model()
        d = {}
        for i, v in enumerate(self.zvars):
            val = m.eval(v, model_completion=True)
            d[i] = val.as_long()
        return d

    def current_model(self):
        """a model of the current path condition as {name: int}, or None"""
        if self.model is None:
            r = self._check()
            if r != z3.sat:
                return None
            self.model = self._extract_model()
        return {self.names[i]: v for i, v in self.model.items()}

    def evalkey(self, key, model):
        if key[0] == 'Z':
            sub = [(v, z3.IntVal(model.get(i, 0))) for i, v in enumerate(self.zvars)]
            return z3.is_true(z3.simplify(z3.substitute(self.zcache[key], *sub)))
        coefs, k, op = key
        s = k
        for i, c in coefs:
            s += c * model.get(i, 0)
        return s <= 0 if op == 'le' else s == 0

    def decide(self, key):
        """key = canonical atom; returns the truth value followed on this path"""
        hit = self.memo.get(key)
        if hit is not None:
            self.nmemo += 1
            return hit
        if self.pos < len(self.trail):
            ent = self.trail[self.pos]
            if ent[0] != 'D' or ent[1] != key:
                raise RuntimeError("non-deterministic replay: recorded %r, now %r" % (ent[:2], key))
            d = ent[2]
            if self.pos >= self.kept:
                if ent[3]:
                    self.solver.push(); self.scopes.append(self.pos)
                self.solver.add(self.zatom(key) if d else z3.Not(self.zatom(key)))
                self.kept = self.pos + 1
                if self.model is not None and self.evalkey(key, self.model) != d:
                    self.model = None
            self.pos += 1
            self.memo[key] = d
            return d
        # frontier
        z = self.zatom(key)
        if self.forced is not None and self.nforced < len(self.forced):
            d = self.forced[self.nforced]; self.nforced += 1
            self.solver.add(z if d else z3.Not(z))
            self.trail.append(['D', key, d, False, None])
            self.pos += 1; self.kept = self.pos; self.memo[key] = d
            if self.model is not None and self.evalkey(key, self.model) != d:
                self.model = None
            return d
        altmodel = None
        if self.model is not None:
            self.nmodel += 1
            d = self.evalkey(key, self.model)
            r = self._check(z3.Not(z) if d else z)
            alt = r != z3.unsat
            if r == z3.sat:
                altmodel = self._extract_model()
        else:
            r = self._check(z)
            if r == z3.unsat:
                d, alt = False, False
            else:
                if r == z3.sat:
                    self.model = self._extract_model()
                r2 = self._check(z3.Not(z))
                d, alt = True, r2 != z3.unsat
                if r2 == z3.sat:
                    altmodel = self._extract_model()
                if r != z3.sat:
                    self.model = None
        if alt:
            self.solver.push(); self.scopes.append(self.pos)
        self.solver.add(z if d else z3.Not(z))
        self.trail.append(['D', key, d, alt, altmodel])
        self.pos += 1; self.kept = self.pos
        self.memo[key] = d
        return d

    def decide_z(self, zexpr):
        """branch on an arbitrary z3 boolean (used by environment stubs)"""
        zexpr = z3.simplify(zexpr)
        if z3.is_true(zexpr): return True
        if z3.is_false(zexpr): return False
        key = ('Z', zexpr.sexpr())
        self.zcache[key] = zexpr
        return self.decide(key)

    def choose(self, tagname='c'):
        """free binary choice of the environment (both outcomes are explored)"""
        tag = ('choose', tagname)
        if self.pos < len(self.trail):
            ent = self.trail[self.pos]
            if ent[0] != 'C':
                raise RuntimeError("non-deterministic replay (choose)")
            if self.pos >= self.kept:
                if ent[3]:
                    self.solver.push(); self.scopes.append(self.pos)
                self.kept = self.pos + 1
            self.pos += 1
            return ent[2]
        if self.forced is not None and self.nforced < len(self.forced):
            d = self.forced[self.nforced]; self.nforced += 1
            self.trail.append(['C', tag, d, False, None]); self.pos += 1; self.kept = self.pos
            return d
        self.solver.push(); self.scopes.append(self.pos)
        self.trail.append(['C', tag, True, True, None]); self.pos += 1; self.kept = self.pos
        return True

    def add_fact(self, tag, zbuilder, fix_model=None):
        """assert a side constraint (fresh quotient definitions, clock monotonicity); deterministic on replay.
        fix_model(model dict idx->int): make the cached model satisfy the new fact (else the model is dropped)."""
        if self.model is not None:
            if fix_model is not None:
                fix_model(self.model)
            else:
                self.model = None
        if self.pos < len(self.trail):
            ent = self.trail[self.pos]
            if ent[0] != 'A' or ent[1] != tag:
                raise RuntimeError("non-deterministic replay (fact): recorded %r, now %r" % (ent[:2], tag))
            if self.pos >= self.kept:
                self.solver.add(zbuilder()); self.kept = self.pos + 1
            self.pos += 1
            return
        self.solver.add(zbuilder())
        self.trail.append(['A', tag, True, False, None])
        self.pos += 1; self.kept = self.pos

    def fresh(self, prefix):
        """a fresh integer variable whose name is a deterministic function of the position in the path"""
        self.nfresh += 1
        return self.newvar("%s!%d" % (prefix, self.nfresh))

    def pick(self, n, tag):
        """symbolic choice in range(n): a solver variable the engine branches on"""
        idx = self.newvar("ch!%s" % tag)
        def fix(model):
            if not 0 <= model.get(idx, 0) < n: model[idx] = 0
        self.add_fact(('ch', tag, n), lambda: z3.And(self.zvars[idx] >= 0, self.zvars[idx] < n), fix)
        v = self.num(idx)
        for j in range(n - 1):
            if v == j:
                return j
        return n - 1

    def donate(self):
        """give away the shallowest unexplored alternative as a decision prefix (or None)"""
        for idx, ent in enumerate(self.trail):
            if ent[0] in ('D', 'C') and ent[3]:
                pre = [e[2] for e in self.trail[:idx] if e[0] in ('D', 'C')] + [not ent[2]]
                ent[3] = False
                return pre
        return None

    def choice_record(self):
        return [e[2] for e in self.trail[:self.pos] if e[0] == 'C']

    def decisions(self):
        return [e[2] for e in self.trail if e[0] in ('D', 'C')]

    def backtrack(self):
        while self.trail:
            ent = self.trail[-1]
            if ent[0] in ('C', 'D') and ent[3]:
                idx = len(self.trail) - 1
                while self.scopes and self.scopes[-1] >= idx:
                    self.scopes.pop(); self.solver.pop()
                ent[2] = not ent[2]; ent[3] = False
                self.kept = min(self.kept, idx)
                self.model = ent[4] if ent[0] == 'D' else None
                return True
            self.trail.pop()
            self.kept = min(self.kept, len(self.trail))
        return False

    # ---- obligations
    def prove(self, zexpr, extra_not=None):
        """None if PC => zexpr for all values; else a model {name:int} or 'unknown'.
        extra_not: a z3 boolean describing inputs to be excluded (known findings)."""
        self.nobl += 1
        neg = z3.Not(zexpr)
        r = self._check(neg, obligation=True)
        if self.dump is not None and len(self.dump) < 8 and r != z3.unknown:
            s2 = z3.Solver(); s2.add(self.solver.assertions()); s2.add(z3.simplify(neg))     # simplify: no nullary and/or in the SMT-LIB text
            self.dump.append((s2.to_smt2(), str(r)))
        if r == z3.unsat:
            self.ndischarged += 1
            return None
        if r == z3.sat:
            m = self._extract_model()
            return {self.names[i]: v for i, v in m.items()}
        return 'unknown'

    def sat_with(self, zexpr):
        """is PC and zexpr satisfiable?  returns model dict, None (unsat) or 'unknown'"""
        r = self._check(zexpr)
        if r == z3.unsat: return None
        if r == z3.sat:
            m = self._extract_model()
            return {self.names[i]: v for i, v in m.items()}
        return 'unknown'


class ConcreteCtx(_Reporting):
    """the same harness code run on concrete integers against the real numpy / real code (replay)"""
    symbolic = False

    def __init__(self, values, choices=()):
        self.values = dict(values)
        self.zvars = []; self.names = []; self.nameidx = {}
        self.ok = True; self.why = ''
        self.choices = list(choices); self.nchoice = 0
        self.ns = {}
        self.nobl = 0; self.ndischarged = 0
        self.nfresh = 0
        self.nchecks = 0; self.solver_time = 0.0
        self._init_reporting()

    def newvar(self, name):
        i = self.nameidx.get(name)
        if i is not None: return i
        self.zvars.append(z3.IntVal(int(self.values.get(name, 0)))); self.names.append(name)
        self.nameidx[name] = len(self.zvars) - 1
        return len(self.zvars) - 1

    def num(self, idx):
        return self.zvars[idx].as_long()

    def _truth(self, z):
        if isinstance(z, bool): return z
        s = z3.simplify(z)
        if z3.is_true(s): return True
        if z3.is_false(s): return False
        raise RuntimeError("concrete evaluation left a residue: %s" % s)

    def assume(self, z):
        if not self._truth(z):
            self.ok = False; self.why = 'precondition false under the recorded values: %s' % z

    def add_fact(self, tag, zbuilder):
        if not self._truth(zbuilder()):
            self.ok = False; self.why = 'side fact false under the recorded values: %r' % (tag,)

    def fresh(self, prefix):
        self.nfresh += 1
        return self.newvar("%s!%d" % (prefix, self.nfresh))

    def pick(self, n, tag):
        idx = self.newvar("ch!%s" % tag)
        v = self.num(idx)
        return min(max(v, 0), n - 1)

    def choose(self, tagname='c'):
        if self.nchoice < len(self.choices):
            d = self.choices[self.nchoice]
        else:
            d = True
        self.nchoice += 1
        return d

    def decide_z(self, zexpr):
        return self._truth(zexpr)

    def current_model(self):
        return dict(self.values)

    def prove(self, zexpr, extra_not=None):
        self.nobl += 1
        if self._truth(zexpr):
            self.ndischarged += 1
            return None
        return dict(self.values)

    def sat_with(self, zexpr):
        return dict(self.values) if self._truth(zexpr) else None

    def start_path(self):
        self.nfresh = 0
        self.findings = []; self.outcome = None; self.nchoice = 0


def zsum_(terms):
    """sum of z3 terms; a one-element sum is the element itself (cvc5 rejects (+ x))"""
    terms = list(terms)
    if not terms: return z3.IntVal(0)
    return terms[0] if len(terms) == 1 else z3.Sum(terms)


def ctx():
    return Ctx.cur


def _canon(coefs, k, op):
    """coefs dict -> canonical key for the atom  sum + k (op) 0 ; returns a concrete bool if there are no variables"""
    items = [(i, c) for i, c in sorted(coefs.items()) if c != 0]
    if not items:
        return (k <= 0) if op == 'le' else (k == 0)
    g = 0
    for _, c in items: g = gcd(g, abs(c))
    if op == 'le':
        if g > 1:
            items = [(i, c // g) for i, c in items]
            k = -((-k) // g)       # ceil(k/g)
        return (tuple(items), k, 'le')
    else:
        if g > 1:
            if k % g != 0: return False
            items = [(i, c // g) for i, c in items]; k //= g
        if items[0][1] < 0:
            items = [(i, -c) for i, c in items]; k = -k
        return (tuple(items), k, 'eq')


class SymNum:
    """(sum_i c[i]*var_i + k) / d   with integer c, k and a positive integer d"""
    __slots__ = ('c', 'k', 'd')

    def __init__(self, c, k=0, d=1):
        self.c = c; self.k = k; self.d = d

    @staticmethod
    def _parts(x):
        if isinstance(x, SymNum): return x.c, x.k, x.d
        if isinstance(x, bool): return {}, int(x), 1
        if isinstance(x, int): return {}, x, 1
        if isinstance(x, float):
            if math.isinf(x) or math.isnan(x): raise _Inf(x)
            a, b = x.as_integer_ratio(); return {}, a, b
        if isinstance(x, Fraction): return {}, x.numerator, x.denominator
        return None

    @staticmethod
    def _mk(c, k, d):
        c = {i: v for i, v in c.items() if v != 0}
        # constants stay SymNum: every number in the shim arrays then has float64-like semantics
        # (true division, x/0 -> inf/nan, x//0 -> inf/nan) instead of Python-int semantics
        g = gcd(d, k)
        if g > 1:
            for v in c.values():
                g = gcd(g, v)
                if g == 1: break
            if g > 1:
                c = {i: v // g for i, v in c.items()}; k //= g; d //= g
        return SymNum(c, k, d)

    def __add__(self, o):
        try: p = SymNum._parts(o)
        except _Inf as e: return e.v
        if p is None: return NotImplemented
        oc, ok, od = p
        if od == self.d:
            m1 = m2 = 1; d = od
        else:
            d = self.d * od // gcd(self.d, od); m1 = d // self.d; m2 = d // od
        c = {i: v * m1 for i, v in self.c.items()} if m1 != 1 else dict(self.c)
        for i, v in oc.items(): c[i] = c.get(i, 0) + v * m2
        return SymNum._mk(c, self.k * m1 + ok * m2, d)
    __radd__ = __add__

    def __neg__(self): return SymNum({i: -v for i, v in self.c.items()}, -self.k, self.d)
    def __pos__(self): return self

    def __sub__(self, o):
        if isinstance(o, float) and (math.isinf(o) or math.isnan(o)): return -o
        return self + (-o)

    def __rsub__(self, o):
        if isinstance(o, float) and (math.isinf(o) or math.isnan(o)): return o
        return (-self) + o

    def __mul__(self, o):
        p = SymNum._parts(o)
        if p is None: return NotImplemented
        oc, ok, od = p
        if oc:
            if self.c: raise Unsupported("symbolic * symbolic")
            return o * self          # constant * symbolic
        return SymNum._mk({i: v * ok for i, v in self.c.items()}, self.k * ok, self.d * od)
    __rmul__ = __mul__

    def __truediv__(self, o):
        p = SymNum._parts(o)
        if p is None: return NotImplemented
        oc, ok, od = p
        if oc: raise Unsupported("division by symbolic")
        if ok == 0 and not self.c:
            return math.nan if self.k == 0 else (math.inf if self.k > 0 else -math.inf)
        if ok == 0:
            # numpy float64 semantics (the code under test works on float64 sums): x/0 -> +-inf / nan
            if self > 0: return math.inf
            if self < 0: return -math.inf
            return math.nan
        if ok < 0: return (-self) / (-o)
        return SymNum._mk({i: v * od for i, v in self.c.items()}, self.k * od, self.d * ok)

    def __rtruediv__(self, o):
        if self.c: raise Unsupported("division by symbolic")
        return SymNum._mk({}, 0, 1).__add__(o) / Fraction(self.k, self.d) if self.k else SymNum._mk({}, 0, 1).__add__(o) / 0

    def _quot(self, ceil):
        if self.d == 1: return self
        if not self.c:
            return SymNum({}, -((-self.k) // self.d) if ceil else self.k // self.d, 1)
        c = ctx()
        idx = c.fresh('q')
        me = self
        def build():
            num = zsum_([v * c.zvars[i] for i, v in me.c.items()]) + me.k
            q = c.zvars[idx]
            if ceil:
                return z3.And(me.d * (q - 1) < num, num <= me.d * q)
            return z3.And(me.d * q <= num, num < me.d * q + me.d)
        def fix(model):
            num = me.k
            for i, v in me.c.items(): num += v * model.get(i, 0)
            model[idx] = -((-num) // me.d) if ceil else num // me.d
        c.add_fact(('q', idx, ceil), build, fix)
        return SymNum({idx: 1}, 0, 1)

    def __floor__(self): return self._quot(False)
    def __ceil__(self): return self._quot(True)

    def __floordiv__(self, o):
        p = SymNum._parts(o)
        if p is None: return NotImplemented
        if p[0]: raise Unsupported("floor division by symbolic")
        r = self / o          # division by zero gives inf/nan as numpy's float64 floor_divide does
        return r._quot(False) if isinstance(r, SymNum) else r

    def __rfloordiv__(self, o): raise Unsupported("division by symbolic")

    def __mod__(self, o): return self - (self // o) * o

    def __abs__(self): return self if self >= 0 else -self

    def _cmp(self, o, op):
        if isinstance(o, float):
            if math.isnan(o): return op == 'ne'
            if math.isinf(o):
                pos = o > 0
                return {'lt': pos, 'le': pos, 'gt': not pos, 'ge': not pos, 'eq': False, 'ne': True}[op]
        p = SymNum._parts(o)
        if p is None: return NotImplemented
        oc, ok, od = p
        c = {i: v * od for i, v in self.c.items()}
        for i, v in oc.items(): c[i] = c.get(i, 0) - v * self.d
        k = self.k * od - ok * self.d
        neg = False
        if op == 'lt':   key = _canon(c, k + 1, 'le')
        elif op == 'le': key = _canon(c, k, 'le')
        elif op == 'gt': key = _canon({i: -v for i, v in c.items()}, -k + 1, 'le')
        elif op == 'ge': key = _canon({i: -v for i, v in c.items()}, -k, 'le')
        elif op == 'eq': key = _canon(c, k, 'eq')
        else:            key = _canon(c, k, 'eq'); neg = True
        r = key if isinstance(key, bool) else ctx().decide(key)
        return (not r) if neg else r

    def __lt__(self, o): return self._cmp(o, 'lt')
    def __le__(self, o): return self._cmp(o, 'le')
    def __gt__(self, o): return self._cmp(o, 'gt')
    def __ge__(self, o): return self._cmp(o, 'ge')
    def __eq__(self, o): return self._cmp(o, 'eq')
    def __ne__(self, o): return self._cmp(o, 'ne')
    def __hash__(self): return 0
    def __bool__(self): return self != 0
    def __repr__(self): return "<sym>" if self.c else repr(Fraction(self.k, self.d))
    def __str__(self): return "<sym>"
    def __format__(self, spec): return "<sym>"
    def const(self):
        """the value if this number has no symbolic part, else None"""
        return None if self.c else Fraction(self.k, self.d)
    def __index__(self):
        if self.c or self.d != 1: raise Unsupported("symbolic value used as an index")
        return self.k
    def __int__(self):
        if self.c: raise Unsupported("int() of a symbolic value")
        return int(Fraction(self.k, self.d))
    def __float__(self):
        if self.c: raise Unsupported("float() of a symbolic value")
        return self.k / self.d
    def __round__(self, n=None): raise Unsupported("round() of a symbolic value")
    def __copy__(self): return self
    def __deepcopy__(self, memo): return self


numbers.Number.register(SymNum)


# ---- z3 views -------------------------------------------------------------------------------

def zq(x, c=None):
    """value -> (z3 Int term numerator, positive int denominator)"""
    c = c or ctx()
    if isinstance(x, SymNum):
        terms = [v * c.zvars[i] for i, v in x.c.items()]
        return (zsum_(terms) + x.k if terms else z3.IntVal(x.k)), x.d
    if isinstance(x, bool): return z3.IntVal(int(x)), 1
    if isinstance(x, int): return z3.IntVal(x), 1
    if isinstance(x, Fraction): return z3.IntVal(x.numerator), x.denominator
    if z3.is_expr(x): return x, 1
    try:
        f = float(x)
    except Unsupported:
        raise
    if math.isinf(f) or math.isnan(f):
        raise ValueError("non-finite value where a number was expected: %r" % (x,))
    a, b = f.as_integer_ratio()
    return z3.IntVal(a), b


def zi(x, c=None):
    """integer-valued value -> z3 Int term (raises if the value is not integral by construction)"""
    n, d = zq(x, c)
    if d != 1:
        raise ValueError("value is not integral by construction: denominator %d" % d)
    return n


def zeq(a, b, c=None):
    an, ad = zq(a, c); bn, bd = zq(b, c)
    return an * bd == bn * ad


def zle(a, b, c=None):
    an, ad = zq(a, c); bn, bd = zq(b, c)
    return an * bd <= bn * ad


def is_sym(x):
    return isinstance(x, SymNum)
