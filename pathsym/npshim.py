"""Pure-Python stand-in for the numpy surface prtpy uses (stub S1 of DESIGN.md).

Exact arithmetic on SymNum; slices are VIEWS (as in numpy); in-place sort; np.append copies.
float64 behaviour that exact arithmetic does not have is mirrored in SymNum (x/0 -> inf/nan).
"""
import math, sys
from .engine import SymNum

inf = math.inf
nan = math.nan
float64 = float
int64 = int


RAW = False        # RAW mode: store values as they are (used when another symbolic executor - CrossHair - supplies the numbers)


def _w(x):
    if RAW or isinstance(x, SymNum):
        return x
    if isinstance(x, bool):
        return SymNum({}, int(x), 1)
    if isinstance(x, int):
        return SymNum({}, x, 1)
    if isinstance(x, float):
        if math.isinf(x) or math.isnan(x):
            return x
        a, b = x.as_integer_ratio()
        return SymNum({}, a, b)
    return x


class ndarray:
    __slots__ = ('_buf', '_off', '_len')

    def __init__(self, buf, off=0, n=None):
        self._buf = buf; self._off = off
        self._len = len(buf) - off if n is None else n

    def __len__(self): return self._len

    @property
    def shape(self): return (self._len,)

    def _ix(self, i):
        if not isinstance(i, int):
            if isinstance(i, (float, SymNum)):
                # numpy: "only integers, slices ... are valid indices"
                raise IndexError("only integers, slices (`:`), ellipsis (`...`), numpy.newaxis (`None`) and integer or boolean arrays are valid indices")
            i = i.__index__()
        if i < 0: i += self._len
        if not 0 <= i < self._len:
            raise IndexError("index %d is out of bounds for axis 0 with size %d" % (i, self._len))
        return self._off + i

    def __getitem__(self, i):
        if isinstance(i, slice):
            start, stop, step = i.indices(self._len)
            if step != 1: raise NotImplementedError("strided slices are not modelled")
            return ndarray(self._buf, self._off + start, max(0, stop - start))   # a VIEW, as in numpy
        return self._buf[self._ix(i)]

    def __setitem__(self, i, v):
        if isinstance(i, slice):
            start, stop, step = i.indices(self._len)
            if step != 1: raise NotImplementedError("strided slices are not modelled")
            n = max(0, stop - start)
            vals = [_w(x) for x in v] if hasattr(v, '__iter__') else [_w(v)] * n
            if len(vals) != n:
                raise ValueError("could not broadcast input array from shape (%d,) into shape (%d,)" % (len(vals), n))
            for j, x in enumerate(vals):
                self._buf[self._off + start + j] = x
            return
        self._buf[self._ix(i)] = _w(v)

    def __iter__(self):
        for j in range(self._len):
            yield self._buf[self._off + j]

    def sort(self):
        vals = sorted(self)
        for j, x in enumerate(vals):
            self._buf[self._off + j] = x

    def tolist(self): return list(self)
    def copy(self): return ndarray(list(self))
    def __repr__(self): return "array(%r)" % (list(self),)
    def __bool__(self):
        if self._len == 1: return bool(self._buf[self._off])
        raise ValueError("The truth value of an array with more than one element is ambiguous. Use a.any() or a.all()")
    __hash__ = None


def zeros(n, dtype=None):
    return ndarray([0 if RAW else SymNum({}, 0, 1) for _ in range(n)])


def array(x, dtype=None):
    return ndarray([_w(v) for v in x])


def append(a, b):
    la = list(a) if hasattr(a, '__iter__') else [a]
    lb = list(b) if hasattr(b, '__iter__') else [b]
    return ndarray([_w(v) for v in la + lb])


def floor(x):
    if isinstance(x, float) and (math.isinf(x) or math.isnan(x)): return x
    return math.floor(x)


def ceil(x):
    if isinstance(x, float) and (math.isinf(x) or math.isnan(x)): return x
    return math.ceil(x)


def _seq(a):
    return list(a) if hasattr(a, '__iter__') else [a]


def isclose(a, b, rtol=1e-05, atol=1e-08, equal_nan=False):
    """numpy's definition: |a - b| <= atol + rtol * |b|   (exact rationals here; float rounding at the boundary is settled by replay)"""
    a = _w(a); b = _w(b)
    if isinstance(a, float) or isinstance(b, float):      # inf / nan
        return a == b
    return abs(a - b) <= _w(atol) + _w(rtol) * abs(b)


def allclose(a, b, rtol=1e-05, atol=1e-08):
    return all(isclose(x, y, rtol, atol) for x, y in zip(_seq(a), _seq(b)))


def array_equal(a, b):
    a = _seq(a); b = _seq(b)
    return len(a) == len(b) and all(x == y for x, y in zip(a, b))


def absolute(x):
    return ndarray([abs(v) for v in x]) if hasattr(x, '__iter__') else abs(_w(x))


_builtin_sum, _builtin_max, _builtin_min, _builtin_sorted = sum, max, min, sorted


def _np_sum(a, axis=None):
    return _builtin_sum(_seq(a), SymNum({}, 0, 1))


def _np_max(a, axis=None):
    return _builtin_max(_seq(a))


def _np_min(a, axis=None):
    return _builtin_min(_seq(a))


amax, amin = _np_max, _np_min


def maximum(a, b): return a if a >= b else b
def minimum(a, b): return a if a <= b else b


def argmin(a):
    l = _seq(a); return _builtin_min(range(len(l)), key=l.__getitem__)


def argmax(a):
    l = _seq(a); return _builtin_max(range(len(l)), key=l.__getitem__)


def argsort(a, kind=None):
    l = _seq(a); return ndarray(_builtin_sorted(range(len(l)), key=l.__getitem__))


def sort(a):
    return ndarray(_builtin_sorted(_w(v) for v in a))


def cumsum(a):
    res = []; t = SymNum({}, 0, 1)
    for v in a:
        t = t + v; res.append(t)
    return ndarray(res)


def copy(a): return ndarray([_w(v) for v in a])
def asarray(a, dtype=None): return a if isinstance(a, ndarray) else array(a)
def ones(n, dtype=None): return ndarray([SymNum({}, 1, 1) for _ in range(n)])
def full(n, v, dtype=None): return ndarray([_w(v) for _ in range(n)])
def empty(n, dtype=None): return zeros(n)
def arange(*a): return ndarray([SymNum({}, i, 1) for i in range(*a)])
def concatenate(seqs): return ndarray([_w(v) for s_ in seqs for v in s_])
def isinf(x): return isinstance(x, float) and math.isinf(x)
def isnan(x): return isinstance(x, float) and math.isnan(x)
def isfinite(x): return not (isinstance(x, float) and (math.isinf(x) or math.isnan(x)))
def sign(x): return 1 if x > 0 else (-1 if x < 0 else 0)
def mean(a):
    l = _seq(a); return _np_sum(l) / len(l)


_SHADOWING = {'sum': _np_sum, 'max': _np_max, 'min': _np_min, 'abs': absolute}    # numpy names that would shadow builtins inside this module


def __getattr__(name):
    if name in _SHADOWING:
        return _SHADOWING[name]
    if name.startswith('__'):
        raise AttributeError(name)
    from .engine import Unsupported
    raise Unsupported("numpy.%s is not modelled by the shim (stub S1)" % name)


class _Random:
    def __getattr__(self, name):
        raise NotImplementedError("numpy.random is not modelled (stub S7)")


random = _Random()

class _MathShim:
    """stand-in for the `math` module inside prtpy modules: isclose / fabs work on symbolic numbers, the rest is the real thing"""
    def isclose(self, a, b, *, rel_tol=1e-09, abs_tol=0.0):
        a = _w(a); b = _w(b)
        if isinstance(a, float) or isinstance(b, float):
            return a == b
        d = a - b
        if d < 0: d = -d
        aa = a if a >= 0 else -a; bb = b if b >= 0 else -b
        big = aa if aa >= bb else bb
        return d <= _w(rel_tol) * big or d <= _w(abs_tol)
    def fabs(self, x): return x if _w(x) >= 0 else -x
    def __getattr__(self, name): return getattr(math, name)


mathshim = _MathShim()


class _FloatMeta(type):
    """stand-in for the builtin `float` inside prtpy modules: under S2 (exact arithmetic) float(x) of a symbolic number is x itself;
    everything else (concrete numbers, strings such as 'inf', isinstance tests) goes to the real float"""
    def __instancecheck__(cls, x): return isinstance(x, _builtin_float)
    def __call__(cls, x=0.0):
        if isinstance(x, SymNum): return x
        return _builtin_float(x)


_builtin_float = float
floatshim = _FloatMeta('float', (), {})
_installed = False


def install():
    """replace the module attribute `np`/`numpy` in every loaded prtpy module by this shim"""
    global _installed
    import numpy, prtpy  # noqa: F401
    me = sys.modules[__name__]
    n = 0
    for name, mod in list(sys.modules.items()):
        if name == 'prtpy' or name.startswith('prtpy.'):
            for attr, val in list(vars(mod).items()):
                if val is numpy:
                    setattr(mod, attr, me); n += 1
                elif val is math:
                    setattr(mod, attr, mathshim); n += 1
            if 'float' not in vars(mod) and hasattr(mod, '__file__'):
                setattr(mod, 'float', floatshim)
    import prtpy.binners as B
    B.BinnerKeepingSums.BinsArray = ndarray
    _installed = True
    return n
