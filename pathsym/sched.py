"""Run many symbolic-exploration jobs over forked workers with dynamic work splitting (DESIGN.md section 2).

A task is (job index, decision prefix).  All jobs start as one task with the empty prefix.  Whenever a
worker is idle and the queue is empty, a busy worker hands over its shallowest unexplored alternative as
a decision prefix.  Every path is owned by exactly one worker.
"""
import multiprocessing as mp, queue, time, traceback, sys, os, importlib, random, signal
from .engine import Ctx, PathAbort, Unsupported


def load_factory(spec):
    modname, fname = spec.split(':')
    return getattr(importlib.import_module(modname), fname)


def build(job):
    """job dict -> object with setup(c) and fn(c, *args)"""
    return load_factory(job['factory'])(**job['params'])


FINDING_CAP = 12
PATH_TIMEOUT_S = int(os.environ.get('VERIF_PATH_TIMEOUT_S', '240' if os.environ.get('VERIF_TIER', 'quick') == 'quick' else '900'))


class PathTimeout(BaseException):
    """a single path ran longer than PATH_TIMEOUT_S: the code under execution may not terminate on these inputs"""


def _on_alarm(signum, frame):
    raise PathTimeout()


try:
    from harness.common import restore_state as _restore_state
except Exception:          # the engine can be used without the prtpy harness
    _restore_state = None


def _explore_task(job, jidx, pre, shared, stats, sample_every, known_builder, deadline):
    h = build(job)
    c = Ctx(); Ctx.cur = c
    c.forced = list(pre); c.nforced = 0
    if job.get('dump'):
        c.dump = []
    args = h.setup(c)
    if known_builder is not None:
        c.known = known_builder(job, c)
    npaths = 0
    jstart = shared['jstart']; jdead = shared['jdead']; jfind = shared['jfind']
    budget = job.get('budget_s')
    idle = shared['idle']; tasks = shared['tasks']; outstanding = shared['outstanding']
    profile = None
    if not pre and job.get('profile', True):
        profile = set()
    while True:
        if jdead[jidx]:
            stats['abandoned'] += 1
            break
        now = time.time()
        if (budget and now - jstart[jidx] > budget) or now > deadline:
            jdead[jidx] = 1
            stats['abandoned'] += 1
            break
        c.start_path()
        status = 'ok'
        if _restore_state is not None:
            _restore_state()          # every path starts from the library's import-time state (module-level containers, default arguments)
        signal.signal(signal.SIGALRM, _on_alarm)
        signal.setitimer(signal.ITIMER_REAL, PATH_TIMEOUT_S)
        try:
            if profile is not None and npaths == 0:
                def prof(frame, event, arg):
                    if event == 'call':
                        fn = frame.f_code.co_filename
                        if '/prtpy/' in fn:
                            profile.add(fn.split('/prtpy/', 1)[1] + ':' + frame.f_code.co_name)
                sys.setprofile(prof)
                try:
                    h.fn(c, *args)
                finally:
                    sys.setprofile(None)
            else:
                h.fn(c, *args)
        except PathTimeout:
            signal.setitimer(signal.ITIMER_REAL, 0)
            m = None
            try: m = c.current_model()
            except BaseException: pass
            msg = ('PATH-TIMEOUT: one path did not finish within %d s - the code under execution may not terminate; a model of the path so far: %s'
                   % (PATH_TIMEOUT_S, {k: v for k, v in (m or {}).items() if '!' not in k}))
            if job.get('mandatory', True):
                stats['errors'].append(msg)
            else:
                stats['unsupported_msgs'].append(msg[:200]); stats['abandoned'] += 1      # an optional shape: simply not finished
            jdead[jidx] = 1
            break
        except PathAbort:
            status = 'aborted'; stats['aborted'] += 1
        except Unsupported as e:
            status = 'unsupported'; stats['unsupported'] += 1
            if len(stats['unsupported_msgs']) < 3:
                stats['unsupported_msgs'].append(str(e)[:200])
        except RuntimeError as e:
            if 'non-deterministic replay' in str(e):
                stats['errors'].append('NONDETERMINISM: ' + str(e)[:300])
                jdead[jidx] = 1
                break
            stats['errors'].append(traceback.format_exc()[-1500:])
            jdead[jidx] = 1
            break
        except Exception:
            stats['errors'].append(traceback.format_exc()[-1500:])
            jdead[jidx] = 1
            break
        signal.setitimer(signal.ITIMER_REAL, 0)
        npaths += 1
        if c.findings:
            for f in c.findings:
                if f.get('unknown'):
                    stats['unknown'] += 1
                if len(stats['findings']) < FINDING_CAP:
                    stats['findings'].append(f)
            with jfind.get_lock():
                jfind[jidx] += len(c.findings)
            if jfind[jidx] >= 3 * FINDING_CAP:
                jdead[jidx] = 2          # enough failures collected; the job has failed anyway
        if status == 'ok' and c.outcome is not None:
            stats['with_outcome'] += 1
            if (npaths == 1 or (sample_every and npaths % sample_every == 0)) and len(stats['samples']) < 6 and not c.findings:
                m = c.current_model()
                if m is not None:
                    stats['samples'].append({'values': m, 'choices': c.choice_record(), 'outcome': c.outcome,
                                             'decisions': len(c.decisions())})
        ndon = 0
        while idle.value > 0 and tasks.empty() and ndon < 2:
            d = c.donate()
            if d is None:
                break
            with outstanding.get_lock():
                outstanding.value += 1
            tasks.put((jidx, d)); stats['donated'] += 1; ndon += 1
        if not c.backtrack():
            break
    stats['paths'] += npaths
    stats['checks'] += c.nchecks; stats['solver_time'] += c.solver_time
    stats['obligations'] += c.nobl; stats['discharged'] += c.ndischarged
    stats['solver_unknown'] += c.nunknown
    stats['solver_retries'] += getattr(c, 'nretries', 0)
    stats['branch_unknown'] += getattr(c, 'nunknown_branch', 0); stats['by_cvc5'] += getattr(c, 'ncvc5', 0)
    for r_ in getattr(c, 'unknown_reasons', []):
        if len(stats['unsupported_msgs']) < 3: stats['unsupported_msgs'].append('solver unknown: ' + r_)
    stats['decisions'] += c.nmemo + c.nmodel
    for k, v in c.known_hits.items():
        stats['known_hits'][k] = stats['known_hits'].get(k, 0) + v
    if profile is not None:
        stats['functions'] = sorted(profile)
    if c.dump:
        stats['dump'] = c.dump[:4]


def _new_stats():
    return dict(paths=0, checks=0, solver_time=0.0, obligations=0, discharged=0, aborted=0, unsupported=0,
                unsupported_msgs=[], errors=[], findings=[], samples=[], donated=0, tasks=0, abandoned=0,
                with_outcome=0, unknown=0, solver_unknown=0, solver_retries=0, branch_unknown=0, by_cvc5=0, decisions=0, known_hits={}, functions=None, dump=None)


def _worker(wid, jobs, shared, results, sample_every, known_builder, deadline, seed):
    random.seed(seed * 1000 + wid)
    tasks = shared['tasks']; outstanding = shared['outstanding']; idle = shared['idle']
    try:
        while True:
            with idle.get_lock(): idle.value += 1
            while True:
                try:
                    jidx, pre = tasks.get(timeout=0.02); break
                except queue.Empty:
                    if outstanding.value == 0:
                        results.put(('done', wid)); return
            with idle.get_lock(): idle.value -= 1
            st = _new_stats(); st['tasks'] = 1
            t0 = time.time()
            with shared['jstart'].get_lock():
                if shared['jstart'][jidx] == 0:
                    shared['jstart'][jidx] = t0
            try:
                _explore_task(jobs[jidx], jidx, pre, shared, st, sample_every, known_builder, deadline)
            except BaseException:
                st['errors'].append(traceback.format_exc()[-1500:])
                shared['jdead'][jidx] = 1
            st['cpu'] = time.time() - t0
            results.put(('task', jidx, st))
            with outstanding.get_lock():
                outstanding.value -= 1
    except BaseException:
        results.put(('crash', wid, traceback.format_exc()[-1500:]))


def run_jobs(jobs, workers=16, sample_every=50, known_builder=None, deadline_s=3600, seed=0, progress=None):
    """returns list of aggregated per-job dicts (same order as jobs)"""
    ctxm = mp.get_context('fork')
    shared = dict(tasks=ctxm.Queue(), outstanding=ctxm.Value('i', len(jobs)), idle=ctxm.Value('i', 0),
                  jstart=ctxm.Array('d', len(jobs)), jdead=ctxm.Array('i', len(jobs), lock=False),
                  jfind=ctxm.Array('i', len(jobs)))
    results = ctxm.Queue()
    for j in range(len(jobs)):
        shared['tasks'].put((j, []))
    t0 = time.time()
    deadline = t0 + deadline_s
    W = max(1, min(workers, 64))
    ps = [ctxm.Process(target=_worker, args=(i, jobs, shared, results, sample_every, known_builder, deadline, seed)) for i in range(W)]
    for p in ps: p.start()
    agg = [_new_stats() for _ in jobs]
    for a in agg:
        a['cpu'] = 0.0; a['functions'] = []; a['dump'] = []
    done = 0; crashes = []
    last = time.time()
    while done < W:
        try:
            msg = results.get(timeout=1.0)
        except queue.Empty:
            if not any(p.is_alive() for p in ps) and results.empty():
                crashes.append('workers died without reporting')
                break
            if progress and time.time() - last > 30:
                last = time.time(); progress(agg, time.time() - t0)
            continue
        if msg[0] == 'done':
            done += 1
        elif msg[0] == 'crash':
            crashes.append(msg[2]); done += 1
        else:
            _, jidx, st = msg
            a = agg[jidx]
            for k in ('paths', 'checks', 'solver_time', 'obligations', 'discharged', 'aborted', 'unsupported', 'donated',
                      'tasks', 'abandoned', 'with_outcome', 'unknown', 'solver_unknown', 'solver_retries', 'branch_unknown', 'by_cvc5', 'decisions', 'cpu'):
                a[k] += st[k]
            a['errors'] += st['errors'][:3]
            a['unsupported_msgs'] = (a['unsupported_msgs'] + st['unsupported_msgs'])[:3]
            a['findings'] = (a['findings'] + st['findings'])[:FINDING_CAP * 2]
            a['samples'] = (a['samples'] + st['samples'])[:12]
            for k, v in st['known_hits'].items():
                a['known_hits'][k] = a['known_hits'].get(k, 0) + v
            if st['functions']:
                a['functions'] = st['functions']
            if st.get('dump'):
                a['dump'] = (a['dump'] + st['dump'])[:6]
    for p in ps:
        p.join(timeout=5)
        if p.is_alive():
            p.terminate()
    for j, a in enumerate(agg):
        a['complete'] = (shared['jdead'][j] == 0 and a['abandoned'] == 0 and not a['errors'] and not crashes)
        a['stopped_after_findings'] = shared['jdead'][j] == 2
        a['wall_from_start'] = round(time.time() - shared['jstart'][j], 2) if shared['jstart'][j] else None
    return agg, crashes, round(time.time() - t0, 2)
