"""Stub S5: a monotonic clock whose every reading is a fresh solver variable t_i >= t_{i-1} >= 0."""
import time as _real_time
import z3


class Clock:
    def __init__(self, c, tag):
        self.c = c; self.tag = tag; self.i = 0; self.reads = []

    def perf_counter(self):
        c = self.c
        idx = c.newvar("t!%s!%d" % (self.tag, self.i)); self.i += 1
        last = self.reads[-1] if self.reads else None
        def fix(model):
            lo = model.get(last, 0) if last is not None else 0
            if model.get(idx, 0) < lo: model[idx] = lo
        if c.symbolic:
            c.add_fact(('clk', self.tag, self.i), lambda: (c.zvars[idx] >= (c.zvars[last] if last is not None else 0)), fix)
        else:
            c.add_fact(('clk', self.tag, self.i), lambda: (c.zvars[idx] >= (c.zvars[last] if last is not None else 0)))
        self.reads.append(idx)
        return c.num(idx)

    def __getattr__(self, name):            # everything else of the time module is the real thing
        return getattr(_real_time, name)


class installed:
    """with installed(module, clock): ...   replaces module.time for the duration of the block"""
    def __init__(self, module, clock):
        self.module = module; self.clock = clock
    def __enter__(self):
        self.saved = self.module.time
        self.module.time = self.clock
        return self.clock
    def __exit__(self, *a):
        self.module.time = self.saved
        return False
