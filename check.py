"""check.py <property id> <quick|thorough>  - decide one property on /repo's current working tree."""
import sys, os, importlib
sys.path.insert(0, os.path.dirname(os.path.abspath(__file__)))


def main():
    prop, tier = sys.argv[1].upper(), sys.argv[2]
    if tier not in ('quick', 'thorough'):
        raise SystemExit('tier must be quick or thorough')
    os.environ['VERIF_TIER'] = tier
    m = importlib.import_module('harness.%s' % prop.lower())
    from harness import core
    jobs = m.jobs(tier)
    only = os.environ.get('VERIF_ONLY')
    if only:
        jobs = [j for j in jobs if only in j['id']]
    rc = core.run_property(prop, tier, jobs, assumptions=getattr(m, 'ASSUMPTIONS', ()), outside=getattr(m, 'OUTSIDE', ()),
                           extra_evidence=getattr(m, 'extra_evidence', None))
    if hasattr(m, 'post'):
        rc = m.post(tier, rc)
    return rc


if __name__ == '__main__':
    sys.exit(main())
