"""C18 - results respect problem symmetries (reordering, scaling, added zeros)."""
import json, os
from .multi import job, agree_job

VEC = {v['name']: v for v in json.load(open(os.path.join(os.path.dirname(os.path.dirname(os.path.abspath(__file__))), 'vectors.json')))['partition']}

W = 'c18'


def jobs(tier):
    J = []
    for alg in ('greedy', 'roundrobin', 'kk', 'ckk', 'snp', 'rnp', 'cbldm'):
        J.append(job(W, alg, 3, size=2)); J.append(job(W, alg, 4, size=2))
        if alg != 'cbldm':
            J.append(job(W, alg, 3, size=3)); J.append(job(W, alg, 4, size=3, order='desc'))
    J.append(job(W, 'multifit', 3, size=2, iterations=2)); J.append(job(W, 'multifit', 4, size=2, iterations=1))
    for o in ('diff', 'max', 'min'):
        J.append(job(W, 'dp', 3, size=2, obj=o)); J.append(job(W, 'cg', 3, size=2, obj=o)); J.append(job(W, 'cg', 4, size=3, obj=o, order='desc'))
    J.append(job(W, 'dp', 3, size=3, obj='diff'))
    for alg in ('ff', 'ffd', 'bf', 'bfd', 'cdec', 'c23', 'c34'):
        J.append(job(W, alg, 3)); J.append(job(W, alg, 4, order='desc'))
    # agreement of the exact solvers with one another (no oracle involved), also on the repository's 7-8-item vectors
    # (every extra algorithm on the same path multiplies the paths: all of them together only on the smallest shapes, pairs beyond)
    for (n, k) in ((3, 2), (3, 4), (3, 3)):
        J.append(agree_job(n, k))
    J.append(agree_job(4, 2, obj='min', order='desc')); J.append(agree_job(4, 2, order='desc'))
    for algs, heur in ((['ckk', 'snp', 'rnp'], ['kk']), (['cg', 'dp'], ['greedy']), (['ckk', 'cg'], [])):
        J.append(agree_job(4, 3, order='desc', algs=algs, heur=heur))
    J.append(agree_job(4, 3, obj='max', order='desc', algs=['cg', 'dp'], heur=['greedy', 'kk', 'multifit']))
    J.append(agree_job(7, 3, vector=VEC['walter'], holes=[2], algs=['ckk', 'snp', 'rnp', 'cg'], heur=['kk', 'greedy']))
    J.append(agree_job(7, 4, vector=VEC['walter'], holes=[4], algs=['snp', 'rnp', 'cg'], heur=['kk']))
    # tier C: inputs with repeated values - 6 to 9 items taking two or three distinct symbolic values (ties are where pruning bugs live)
    X = dict(order='asc', algs=['snp', 'rnp', 'cg'], heur=['kk'])
    for g in ([3, 2, 2], [2, 2, 3], [2, 3, 2], [4, 3], [3, 4]):
        J.append(agree_job(7, 4, groups=g, **X))
    J.append(agree_job(6, 4, groups=[2, 2, 2], order='asc', algs=['snp', 'rnp', 'cg', 'ckk'], heur=['kk']))
    J.append(agree_job(6, 3, groups=[2, 2, 2], order='asc', algs=['snp', 'rnp', 'cg', 'ckk', 'dp'], heur=['kk', 'greedy']))
    J.append(agree_job(9, 3, groups=[3, 3, 3], **X)); J.append(agree_job(8, 4, groups=[4, 4], **X)); J.append(agree_job(8, 5, groups=[5, 3], **X))
    if tier == 'thorough':
        Y = dict(order='asc', algs=['snp', 'rnp', 'cg'], heur=['kk'])
        J.append(agree_job(8, 4, groups=[3, 3, 2], **Y)); J.append(agree_job(8, 4, groups=[2, 3, 3], **Y)); J.append(agree_job(8, 5, groups=[3, 3, 2], mandatory=False, **Y))
        J.append(agree_job(7, 4, groups=[1, 2, 2, 2], mandatory=False, **Y)); J.append(agree_job(7, 4, groups=[2, 2, 2, 1], mandatory=False, **Y))
        J.append(agree_job(7, 5, groups=[3, 2, 2], **Y)); J.append(agree_job(7, 3, groups=[3, 2, 2], order='asc', algs=['ckk', 'snp', 'rnp', 'cg'], heur=['kk']))
        X = dict(algs=['ckk', 'snp', 'rnp', 'cg'], heur=['kk', 'greedy'])
        for h in range(7):
            J.append(agree_job(7, 3, vector=VEC['walter'], holes=[h], **X)); J.append(agree_job(7, 4, vector=VEC['walter'], holes=[h], algs=['snp', 'rnp', 'cg'], heur=['kk']))
            J.append(agree_job(7, 4, vector=VEC['c02-text'], holes=[h], algs=['snp', 'rnp', 'cg'], heur=['kk'], mandatory=False))
        for h in (0, 3, 7):
            J.append(agree_job(8, 3, vector=VEC['snp-test-8'], holes=[h], **X)); J.append(agree_job(8, 4, vector=VEC['ilp-doctest-8'], holes=[h], algs=['snp', 'rnp'], heur=['kk'], mandatory=False))
        J.append(agree_job(4, 3, algs=['ckk', 'snp', 'rnp'], heur=['kk'])); J.append(agree_job(4, 3, algs=['cg', 'dp'], heur=['greedy']))
        J.append(agree_job(5, 3, order='desc', algs=['ckk', 'cg'], heur=[], mandatory=False)); J.append(agree_job(5, 2, obj='min', order='desc', algs=['cg', 'dp'], heur=['greedy']))
        for alg in ('greedy', 'kk', 'ckk', 'snp', 'rnp'):
            J.append(job(W, alg, 4, size=3)); J.append(job(W, alg, 5, size=3, order='desc'))
        for alg in ('ffd', 'bfd', 'cdec', 'c23', 'c34'):
            J.append(job(W, alg, 4)); J.append(job(W, alg, 5, order='desc'))
    return J


ASSUMPTIONS = ['tier C shapes: 6-9 items taking two or three distinct symbolic values in non-decreasing order of value (every value of those variables, ties between groups included)', 'S1 numpy shim', 'S2 exact arithmetic', 'S3 constant hash', 'scale factors 3 and 10 (2 and 1024 for multifit); all permutations for n<=3, reversal/rotation/swap beyond',
               'exact algorithms with 3 or more bins compared by optimal value, others by the multiset of sums']
OUTSIDE = ['agreement of exact solvers on 11-16 items (a single path there takes minutes; agreement is checked up to 8 items, tier B)', 'scale factors 2, 7, 2^10 for non-multifit algorithms', 'more than 4 items (quick) / 5 (thorough)',
           'bin completion (division by a scaled symbolic bin size is not encoded)', 'ilp']
