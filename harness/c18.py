"""C18 - results respect problem symmetries (reordering, scaling, added zeros)."""
from .multi import job

W = 'c18'


def jobs(tier):
    J = []
    for alg in ('greedy', 'roundrobin', 'kk', 'ckk', 'snp', 'rnp', 'cbldm'):
        J.append(job(W, alg, 3, size=2)); J.append(job(W, alg, 4, size=2))
        if alg != 'cbldm':
            J.append(job(W, alg, 3, size=3)); J.append(job(W, alg, 4, size=3, order='desc'))
    J.append(job(W, 'multifit', 3, size=2, iterations=2)); J.append(job(W, 'multifit', 4, size=2, iterations=1))
    for o in ('diff', 'max', 'min'):
        J.append(job(W, 'dp', 3, size=2, obj=o)); J.append(job(W, 'cg', 3, size=2, obj=o)); J.append(job(W, 'cg', 4, size=3, obj=o, order='desc'))
    J.append(job(W, 'dp', 3, size=3, obj='diff'))
    for alg in ('ff', 'ffd', 'bf', 'bfd', 'cdec', 'c23', 'c34'):
        J.append(job(W, alg, 3)); J.append(job(W, alg, 4, order='desc'))
    if tier == 'thorough':
        for alg in ('greedy', 'kk', 'ckk', 'snp', 'rnp'):
            J.append(job(W, alg, 4, size=3)); J.append(job(W, alg, 5, size=3, order='desc'))
        for alg in ('ffd', 'bfd', 'cdec', 'c23', 'c34'):
            J.append(job(W, alg, 4)); J.append(job(W, alg, 5, order='desc'))
    return J


ASSUMPTIONS = ['S1 numpy shim', 'S2 exact arithmetic', 'S3 constant hash', 'scale factors 3 and 10 (2 and 1024 for multifit); all permutations for n<=3, reversal/rotation/swap beyond',
               'exact algorithms with 3 or more bins compared by optimal value, others by the multiset of sums']
OUTSIDE = ['agreement of exact solvers on 11-16 items (a single path there takes minutes)', 'scale factors 2, 7, 2^10 for non-multifit algorithms', 'more than 4 items (quick) / 5 (thorough)',
           'bin completion (division by a scaled symbolic bin size is not encoded)', 'ilp']
