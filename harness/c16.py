"""C16 - bins-manager operations keep sums and contents consistent, copies independent.

A symbolic PROGRAM of L operations over a pool of live bins-arrays: each step's opcode and operands are solver
variables (the engine branches over them), item values are symbolic.  A reference model (list of name-lists per
array) is updated alongside.  Arrays handed to add-empty / remove / concatenate leave the pool (hand-over discipline)."""
import z3
from .common import *   # noqa: F401,F403
from .common import prtpy, item_vars, numbers, zsum, zi, zq, multiset_eq, NAMES, describe

OPS = ['new', 'add', 'copy', 'sort', 'addempty', 'remove', 'concat', 'combine']


class Program:
    def __init__(self, binner, L, nitems=3, maxbins=2, prestate=False, ops=None):
        self.binner = binner; self.L = L; self.nitems = nitems; self.maxbins = maxbins; self.prestate = prestate
        self.ops = ops or OPS

    def setup(self, c):
        idx = item_vars(c, self.nitems, 0, 'any')
        c.ns['x'] = [c.zvars[i] for i in idx]
        return (idx,)

    def fn(self, c, idx):
        names = list(NAMES[:self.nitems])
        vals = dict(zip(names, numbers(c, idx)))
        zval = dict(zip(names, [c.zvars[i] for i in idx]))
        cls = prtpy.BinnerKeepingContents if self.binner == 'contents' else prtpy.BinnerKeepingSums
        keeps = self.binner == 'contents'
        b = cls(vals.__getitem__)
        pool = []          # [bins, ref]  ref = list of lists of names
        trace = []

        def zs_of(l): return zsum(zval[x] for x in l)

        def invariant(where):
            conj = []
            for bins, ref in pool:
                sums = b.sums(bins)
                if len(sums) != len(ref) or b.numbins(bins) != len(ref):
                    c.report('wrong-number-of-bins', '%s: %d bins, expected %d' % (where, len(sums), len(ref))); return False
                if keeps:
                    if [list(l) for l in bins[1]] != ref:
                        c.report('contents-differ', '%s: contents %s, expected %s' % (where, bins[1], ref)); return False
                    for i in range(len(ref)):
                        if b.numitems(bins, i) != len(ref[i]):
                            c.report('numitems-wrong', '%s: numitems(%d)=%s' % (where, i, b.numitems(bins, i))); return False
                for i, l in enumerate(ref):
                    conj.append(zi(sums[i]) == zs_of(l))
            if conj:
                return c.check('sum-differs-from-contents', z3.And(conj), '%s: a bin sum is not the total value of its recorded items' % (where,))
            return True

        def snapshot(bins):
            return ([zi(v) for v in b.sums(bins)], [list(l) for l in bins[1]] if keeps else None)

        def unchanged(bins, snap, where):
            zs, ls = snap
            now = [zi(v) for v in b.sums(bins)]
            if len(now) != len(zs):
                c.report('argument-modified', '%s changed the number of bins of an argument documented as unmodified' % where); return False
            if keeps and [list(l) for l in bins[1]] != ls:
                c.report('argument-modified', '%s changed the contents of an argument documented as unmodified' % where); return False
            if zs:
                return c.check('argument-modified', z3.And([a == o for a, o in zip(now, zs)]), '%s changed the sums of an argument documented as unmodified' % where)
            return True

        if self.prestate:
            # an arbitrary valid pre-state built directly (not through the API): two arrays, contents chosen symbolically
            for a in range(2):
                k = 1 + c.pick(self.maxbins, 'pre%dk' % a)
                ref = [[] for _ in range(k)]
                for nm in names:
                    w = c.pick(k + 1, 'pre%d%s' % (a, nm))
                    if w < k: ref[w].append(nm)
                sums = [sum((vals[x] for x in l), 0) for l in ref]
                if c.symbolic:
                    arr = npshim_array(sums)
                else:
                    import numpy
                    arr = numpy.array([float(s) for s in sums])
                pool.append([(arr, [list(l) for l in ref]) if keeps else arr, ref])
            trace.append('pre')

        for step in range(self.L):
            ops = ['new'] + ([o for o in self.ops if o != 'new'] if pool else [])
            op = ops[c.pick(len(ops), 'op%d' % step)]
            trace.append(op)
            if op == 'new':
                k = c.pick(self.maxbins + 1, 'k%d' % step)      # 0 .. maxbins
                pool.append([b.new_bins(k), [[] for _ in range(k)]])
            else:
                ai = c.pick(len(pool), 'a%d' % step)
                bins, ref = pool[ai]
                nb = len(ref)
                if op == 'add':
                    if nb == 0: continue
                    it = names[c.pick(self.nitems, 'it%d' % step)]; bi = c.pick(nb, 'bi%d' % step)
                    r = b.add_item_to_bin(bins, it, bi); ref[bi].append(it)
                    if r is not bins:
                        c.report('wrong-return', 'add_item_to_bin did not return the bins-array it was given')
                elif op == 'copy':
                    snap = snapshot(bins)
                    pool.append([b.copy_bins(bins), [list(l) for l in ref]])
                    unchanged(bins, snap, 'copy_bins')
                elif op == 'sort':
                    before = snapshot(bins)
                    b.sort_by_ascending_sum(bins)
                    now = [zi(v) for v in b.sums(bins)]
                    if len(now) != nb:
                        c.report('wrong-number-of-bins', 'sort changed the number of bins'); return
                    ok = c.check('sort-not-ascending', z3.And([now[i] <= now[i + 1] for i in range(nb - 1)]) if nb > 1 else z3.BoolVal(True),
                                 'sums are not in non-decreasing order after sort_by_ascending_sum')
                    ok = c.check('sort-changed-sums', multiset_eq(now, before[0]), 'sort changed the multiset of sums') and ok
                    if keeps:
                        after = [list(l) for l in bins[1]]
                        if sorted(map(tuple, after)) != sorted(map(tuple, before[1])):
                            c.report('sort-changed-contents', 'contents before %s after %s' % (before[1], after)); return
                        ref[:] = after           # which bin went where is checked by the invariant below (sum == contents)
                    else:
                        order = sorted(range(nb), key=lambda i: sum((vals[x] for x in ref[i]), 0))
                        ref[:] = [ref[i] for i in order]
                    if not ok: return
                elif op == 'addempty':
                    m = 1 + c.pick(2, 'm%d' % step)
                    snap = snapshot(bins)
                    new = b.add_empty_bins(bins, m)
                    if not unchanged(bins, snap, 'add_empty_bins'): return
                    pool[ai] = [new, ref + [[] for _ in range(m)]]
                elif op == 'remove':
                    m = c.pick(nb + 1, 'm%d' % step)
                    snap = snapshot(bins)
                    new = b.remove_bins(bins, m)
                    if not unchanged(bins, snap, 'remove_bins'): return
                    pool[ai] = [new, ref[:nb - m]]
                elif op == 'concat':
                    if len(pool) < 2: continue
                    bj = c.pick(len(pool) - 1, 'b%d' % step)
                    if bj >= ai: bj += 1
                    bins2, ref2 = pool[bj]
                    s1, s2 = snapshot(bins), snapshot(bins2)
                    new = b.concatenate_bins(bins, bins2)
                    if not (unchanged(bins, s1, 'concatenate_bins') and unchanged(bins2, s2, 'concatenate_bins')): return
                    pool[:] = [p for t, p in enumerate(pool) if t not in (ai, bj)] + [[new, ref + ref2]]
                elif op == 'combine':
                    if len(pool) < 2: continue
                    bj = c.pick(len(pool) - 1, 'b%d' % step)
                    if bj >= ai: bj += 1
                    bins2, ref2 = pool[bj]
                    if nb == 0 or len(ref2) == 0: continue
                    i1 = c.pick(nb, 'i%d' % step); i2 = c.pick(len(ref2), 'j%d' % step)
                    s2 = snapshot(bins2)
                    b.combine_bins(bins, i1, bins2, i2); ref[i1] += ref2[i2]
                    if not unchanged(bins2, s2, 'combine_bins'): return
            if not invariant('after step %d (%s)' % (step, ' '.join(trace))):
                return
        c.outcome = {'program': trace, 'pool': [len(r) for _, r in pool]}


def npshim_array(vals):
    from pathsym import npshim
    return npshim.array(vals)


def make(**params):
    return Program(**params)


def job(binner, L, mandatory=True, **kw):
    tag = ' '.join('%s=%s' % (a, b) for a, b in sorted(kw.items()))
    j = {'id': '%s manager, programs of %d operations %s' % (binner, L, tag), 'factory': 'harness.c16:make', 'params': dict(binner=binner, L=L, **kw)}
    if not mandatory: j['mandatory'] = False
    return j


def jobs(tier):
    J = []
    for binner in ('contents', 'sums'):
        J.append(job(binner, 1)); J.append(job(binner, 2)); J.append(job(binner, 3)); J.append(job(binner, 4, nitems=2))
        J.append(job(binner, 1, prestate=True, nitems=2))
        if tier == 'thorough':
            J.append(job(binner, 2, prestate=True, nitems=2))
            J.append(job(binner, 4, nitems=3, maxbins=3)); J.append(job(binner, 5, nitems=2, mandatory=False))
    return J


ASSUMPTIONS = ['S1 numpy shim (views for slices, copies for np.array/np.append)', 'S2 exact arithmetic',
               'hand-over discipline: arguments of add_empty_bins / remove_bins / concatenate_bins leave the pool',
               'pre-states: two arrays of at most 2 bins whose contents are chosen symbolically among the items, built directly (one inductive step from any valid state)']
OUTSIDE = ['programs longer than 3 (quick) / 4 (thorough) operations from the empty pool', 'more than 3 bins per array at creation',
           'all_combinations (covered by C13)']
