"""Replay recorded inputs against the real code (real numpy, real CBC): the same harness, concrete mode.

  python -m harness.replay <file> --batch     internal: list of entries -> RESULT <json list>
  python -m harness.replay <violation.json>   exit 1 and print what fails if the violation reproduces, else exit 0
"""
import json, os, sys, traceback

os.environ['PATHSYM_MODE'] = 'concrete'
sys.path.insert(0, os.path.dirname(os.path.dirname(os.path.abspath(__file__))))

from pathsym.engine import ConcreteCtx, Ctx, PathAbort, Unsupported  # noqa: E402
from pathsym import sched  # noqa: E402


def run_entry(e):
    try:
        h = sched.build(e['job'])
        c = ConcreteCtx(e['values'], e.get('choices') or [])
        Ctx.cur = c
        args = h.setup(c)
        if e.get('apply_known'):
            from harness.core import make_known_builder
            c.known = make_known_builder(e['apply_known'])(e['job'], c)
        if not c.ok:
            return {'ok': False, 'error': c.why, 'findings': []}
        c.start_path()
        try:
            h.fn(c, *args)
        except PathAbort:
            return {'ok': False, 'error': 'path aborted in concrete mode', 'findings': []}
        if not c.ok:
            return {'ok': False, 'error': c.why, 'findings': []}
        return {'ok': True, 'findings': [{'kind': f['kind'], 'detail': f['detail']} for f in c.findings], 'outcome': c.outcome}
    except Exception:
        return {'ok': False, 'error': traceback.format_exc()[-1200:], 'findings': []}


def main():
    path = sys.argv[1]
    data = json.load(open(path))
    if '--batch' in sys.argv:
        res = [run_entry(e) for e in data['entries']]
        print('RESULT ' + json.dumps(res, default=str))
        return 0
    r = run_entry(data)
    if r['findings']:
        print('REPRODUCED property=%s job=%s' % (data.get('property'), data['job']['id']))
        print('  input: %s' % json.dumps({k: v for k, v in data['values'].items() if '!' not in k}))
        for f in r['findings']:
            print('  %s: %s' % (f['kind'], f['detail']))
        return 1
    print('not reproduced: %s' % json.dumps(r)[:500])
    return 0


if __name__ == '__main__':
    sys.exit(main())
