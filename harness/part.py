"""Symbolic runs of prtpy.partition(...) with the obligations of the partitioning properties
(C01 structure, C02 optimality, C08 worst-case ratios).  One factory, parameterised by `checks`."""
import z3
from .common import *   # noqa: F401,F403
from .common import (CONCRETE, prtpy, out, part_alg, objective, cg_kwargs, item_vars, numbers, present, named, names_of,
                     zsum, zmax, zmin, zi, zq, rgs, block_sums, objective_z, optimal_among_partitions, multiset_eq, ctx_cache,
                     item_term, describe, mod)


def alg_kwargs(alg, obj=None, cg_mask=None, iterations=None, extra=None):
    kw = {}
    if alg in ('cg', 'dp', 'ilp') and obj:
        kw['objective'] = objective(obj)
    if alg == 'cg' and cg_mask is not None:
        kw.update(cg_kwargs(cg_mask))
    if alg == 'multifit' and iterations is not None:
        kw['iterations'] = iterations
    if extra:
        kw.update(extra)
    return kw


def install_stubs(alg):
    if alg == 'ilp' and not CONCRETE:
        from pathsym import mipstub
        mod('prtpy.partitioning.integer_programming').mip = mipstub
        mipstub.reset()


class Part:
    def __init__(self, alg, n, k, obj=None, order='any', pres='nv', lo=0, checks=('c01',), fixed=None, cg_mask=None,
                 iterations=None, extra=None, groups=None):
        self.groups = groups
        self.alg = alg; self.n = n; self.k = k; self.obj = obj; self.order = order; self.pres = pres; self.lo = lo
        self.checks = tuple(checks); self.fixed = {int(a): b for a, b in (fixed or {}).items()}
        self.kw = alg_kwargs(alg, obj, cg_mask, iterations, extra)
        self.n = n if not fixed or n else n

    def setup(self, c):
        idx = item_vars(c, self.n, self.lo, self.order, fixed=self.fixed, groups=self.groups)
        c.ns['x'] = [c.zvars[i] for i in idx]
        c.ns['k'] = self.k
        return (idx,)

    def call(self, c, vals, outputtype=out.PartitionAndSumsTuple):
        items, valueof = present(self.pres, vals)
        install_stubs(self.alg)
        return prtpy.partition(part_alg(self.alg), self.k, items, valueof=valueof, outputtype=outputtype, **self.kw)

    def fn(self, c, idx):
        n, k = self.n, self.k
        xs = [c.zvars[i] for i in idx]
        vals = numbers(c, idx, self.fixed)
        try:
            res = self.call(c, vals)
        except TypeError as e:
            if 'NoneType' in str(e):
                res = None
            else:
                c.report('exception', 'TypeError: %s' % e); c.outcome = {'raised': 'TypeError'}; return
        except Exception as e:
            c.report('exception', '%s: %s' % (type(e).__name__, e)); c.outcome = {'raised': type(e).__name__}; return
        if res is None:
            c.report('missing-result', 'the call completed without a partition (None)')
            c.outcome = {'missing': True}; return
        sums, lists = res
        lists = [list(l) for l in lists]
        names = names_of(self.pres, n)
        c.outcome = {'bins': describe(lists) if named(self.pres) else [len(l) for l in lists]}
        term = item_term(self.pres, names, xs)
        # ---- structure (needed by every check to interpret the result)
        structure_ok = True
        if named(self.pres):
            flat = sorted((x for l in lists for x in l), key=repr)
            if flat != sorted(names, key=repr):
                structure_ok = False
                if 'c01' in self.checks:
                    c.report('not-a-partition', 'bins %s do not hold every input item exactly once' % lists)
        if self.alg == 'multifit':
            okcount = 1 <= len(lists) <= k
        else:
            okcount = len(lists) == k
        if not okcount:
            structure_ok = False
            if 'c01' in self.checks:
                c.report('bin-count', '%d bins returned, %d requested' % (len(lists), k))
        if not structure_ok:
            return
        zs = [zsum(term(it) for it in l) for l in lists]
        if 'c01' in self.checks and not named(self.pres):
            flatz = [term(it) for l in lists for it in l]
            c.check('not-a-partition', multiset_eq(flatz, xs), 'output values are not the input values (as multisets)')
        zs_full = zs + [z3.IntVal(0)] * (k - len(zs))
        if 'c02' in self.checks:
            c.check('suboptimal', optimal_among_partitions(self.obj, zs_full, xs, k),
                    '%s returned bins %s whose %s value is not the optimum' % (self.alg, c.outcome['bins'], self.obj))
        if 'c08' in self.checks:
            self.c08(c, xs, zs, zs_full, lists)

    def c08(self, c, xs, zs, zs_full, lists):
        n, k, alg = self.n, self.k, self.alg
        mx, mn = zmax(zs_full), zmin(zs_full)
        if k >= 2:
            # ITE-free forms:  a*max(r) <= b*max(P)  <=>  some bin s of P has a*max(r) <= b*s   (and dually for min);
            # the formula over all partitions P is built once over a placeholder D and instantiated by substitution
            it = self.kw.get('iterations', 10)
            def formula(kind):
                D = z3.Int('D!ratio!%s!%d!%d' % (kind, n, k))
                parts = [block_sums(a, xs, k) for a in rgs(n, k)]
                if kind == 'max': f = z3.And([z3.Or([3 * k * D <= (4 * k - 1) * s for s in ss]) for ss in parts])
                elif kind == 'min': f = z3.And([z3.Or([(4 * k - 2) * D >= (3 * k - 1) * s for s in ss]) for ss in parts])
                else: f = z3.And([z3.Or([100 * 2 ** it * D <= (122 * 2 ** it + 100) * s for s in ss]) for ss in parts])
                return D, f
            def inst(kind, term):
                D, f = ctx_cache(('ratio', kind, n, k, it), lambda: formula(kind))
                return z3.substitute(f, (D, term))
            if alg in ('greedy', 'kk'): c.check('ratio-largest', inst('max', mx), '%s: largest sum above (4/3-1/(3k)) x optimum' % alg)
            if alg == 'greedy': c.check('ratio-smallest', inst('min', mn), 'greedy: smallest sum below (3k-1)/(4k-2) x optimum')
            if alg == 'multifit': c.check('ratio-multifit', inst('mf', mx), 'multifit: largest sum above (1.22+2^-iterations) x optimum')
        if alg in ('greedy', 'kk', 'roundrobin'):
            c.check('gap', mx - mn <= zmax(xs), '%s: largest minus smallest sum exceeds the largest item' % alg)
        if alg == 'roundrobin':
            c.check('rr-order', z3.And([zs[i] >= zs[i + 1] for i in range(k - 1)]), 'round-robin sums are not non-increasing in bin index')
            lens = [len(l) for l in lists]
            if max(lens) - min(lens) > 1:
                c.report('rr-cardinality', 'round-robin bin cardinalities %s differ by more than one' % lens)


def make(**params):
    return Part(**params)


def tierb(prop, alg, vector, k, holes, mandatory=True, **kw):
    """tier B: a repository vector with the positions `holes` replaced by solver variables (>= 0, unbounded)"""
    items = vector['items']
    fixed = {str(i): v for i, v in enumerate(items) if i not in holes}
    j = job(prop, alg, len(items), k, mandatory=mandatory, fixed=fixed, **kw)
    j['id'] = 'tierB %s %s k=%d holes=%s %s' % (alg, vector['name'], k, list(holes), ' '.join('%s=%s' % (a, b) for a, b in sorted(kw.items()) if a != 'checks'))
    return j


def job(prop, alg, n, k, mandatory=True, **kw):
    params = dict(alg=alg, n=n, k=k, **kw)
    tag = ' '.join('%s=%s' % (a, b) for a, b in sorted(kw.items()) if a not in ('checks', 'fixed') and b not in (None,))
    if kw.get('groups'):
        tag = 'tierC ' + tag
    j = {'id': '%s (%d,%d) %s' % (alg, n, k, tag), 'factory': 'harness.part:make', 'params': params}
    if not mandatory:
        j['mandatory'] = False
    if alg == 'dp':
        j['loose'] = True          # DP takes min() over a set: ties are broken by hash order (stub S3)
    if alg == 'ilp':
        j['loose'] = True          # sampled paths are re-run with the real CBC, which need not pick the stub's optimum: only the obligations are re-evaluated
    return j
