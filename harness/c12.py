"""C12 - balanced 2-way partitioning (CBLDM) obeys the cardinality bound and is optimal under it."""
import itertools
import z3
from .common import *   # noqa: F401,F403
from .common import prtpy, out, prt, item_vars, numbers, present, named, names_of, zsum, zabs, zi, item_term, describe, multiset_eq


class H:
    def __init__(self, n, d=None, order='any', pres='nv', groups=None):
        self.n = n; self.d = d; self.order = order; self.pres = pres; self.groups = groups

    def setup(self, c):
        idx = item_vars(c, self.n, 0, self.order, groups=self.groups)
        c.ns['x'] = [c.zvars[i] for i in idx]
        return (idx,)

    def fn(self, c, idx):
        n, d = self.n, self.d
        xs = [c.zvars[i] for i in idx]
        vals = numbers(c, idx)
        items, valueof = present(self.pres, vals)
        kw = {} if d is None else {'partition_difference': d}
        try:
            sums, lists = prtpy.partition(prt.cbldm, 2, items, valueof=valueof, outputtype=out.PartitionAndSumsTuple, **kw)
        except Exception as e:
            c.report('exception', '%s: %s' % (type(e).__name__, e)); c.outcome = {'raised': type(e).__name__}; return
        lists = [list(l) if hasattr(l, '__iter__') else l for l in lists]
        if len(lists) != 2 or not all(isinstance(l, list) for l in lists):
            c.report('not-a-partition', 'result %r' % (lists,)); return
        c.outcome = {'bins': describe(lists) if named(self.pres) else [len(l) for l in lists]}
        names = names_of(self.pres, n)
        term = item_term(self.pres, names, xs)
        if named(self.pres):
            if sorted(x for l in lists for x in l) != sorted(names):
                c.report('not-a-partition', 'bins %s do not hold every item exactly once' % lists); return
        else:
            if not c.check('not-a-partition', multiset_eq([term(it) for l in lists for it in l], xs), 'output values are not the input values'):
                return
        dd = n if d is None else d
        if abs(len(lists[0]) - len(lists[1])) > dd:
            c.report('cardinality-bound', 'bin sizes %d and %d differ by more than %s' % (len(lists[0]), len(lists[1]), dd))
            return
        s0, s1 = [zsum(term(it) for it in l) for l in lists]
        mine = zabs(s0 - s1); tot = zsum(xs)
        conj = []
        for r in range(n + 1):
            if abs(2 * r - n) > dd: continue
            seen = set()
            for S in itertools.combinations(range(n), r):
                key = tuple(sorted(idx[i] for i in S))      # tier C: equal items are interchangeable
                if key in seen: continue
                seen.add(key)
                a = zsum(xs[i] for i in S)
                conj.append(z3.Or(mine <= 2 * a - tot, mine <= tot - 2 * a))
        c.check('suboptimal', z3.And(conj), 'CBLDM difference is not the smallest achievable under cardinality bound %s: bins %s' % (dd, c.outcome['bins']))


def make(**params):
    return H(**params)


def job(n, **kw):
    tag = ' '.join('%s=%s' % (a, b) for a, b in sorted(kw.items()) if b is not None)
    mand = kw.pop('mandatory', True)
    j = {'id': 'cbldm n=%d %s' % (n, tag), 'factory': 'harness.c12:make', 'params': dict(n=n, **kw)}
    if not mand: j['mandatory'] = False
    return j


def jobs(tier):
    J = []
    for n in (1, 2, 3, 4):
        for d in [None] + list(range(1, n + 1)):
            J.append(job(n, d=d))
    J.append(job(3, pres='list')); J.append(job(4, d=1, pres='list')); J.append(job(4, d=2, pres='dict'))
    for d in (None, 1, 2, 3):
        J.append(job(5, d=d, order='desc')); J.append(job(6, d=d, order='desc'))
    J.append(job(5, d=1)); J.append(job(5, d=2))
    # tier C: 7-9 items taking two to four distinct symbolic values
    for g, d in (([1, 3, 2, 1], 1), ([1, 2, 2, 2], 1), ([1, 2, 4], 1), ([1, 3, 3], 2), ([1, 3, 4], 1), ([2, 3, 3], 2), ([1, 4, 4], 1)):
        J.append(job(sum(g), d=d, order='desc', groups=g))
    if tier == 'thorough':
        for g in ([1, 2, 2, 3], [2, 2, 2, 2], [1, 1, 3, 3], [1, 2, 3, 3], [3, 3, 3]):
            for d in (1, 2, 3):
                J.append(job(sum(g), d=d, order='desc', groups=g, mandatory=False))
        for d in (None, 3, 4):
            J.append(job(5, d=d))
        for d in (1, 2, 3):
            J.append(job(7, d=d, order='desc', mandatory=False))
        J.append(job(6, d=1, mandatory=False))
    return J


ASSUMPTIONS = ['S1 numpy shim', 'S2 exact arithmetic', 'no time limit (the clock is not stubbed: time_limit is infinite)']
OUTSIDE = ['more than 6 items with pairwise independent values (7 attempted in the thorough tier, claimed only if it finishes); more than 9 items with at most four distinct values', 'orders other than non-increasing for n >= 5 in the quick tier']
