"""C10 - bin-covering heuristics meet their approximation guarantees."""
from .pack import job


def jobs(tier):
    J = []; ck = ('c10',)
    for alg in ('cdec', 'c23', 'c34'):
        for n in (2, 3, 4):
            J.append(job(alg, n, checks=ck))
    for alg in ('cdec', 'c23'):
        J.append(job(alg, 5, checks=ck, order='desc'))
    if tier == 'thorough':
        for alg in ('cdec', 'c23'):
            J.append(job(alg, 5, checks=ck)); J.append(job(alg, 6, checks=ck, order='desc'))
        J.append(job('c34', 5, checks=ck)); J.append(job('c34', 6, checks=ck, order='desc'))
    return J


ASSUMPTIONS = ['S1 numpy shim', 'S2 exact arithmetic', 'OPT from the expansion oracle over all assignments']
OUTSIDE = ['more than 5 (quick) / 6 (thorough) items', 'planted instances with hundreds of items', 'published worst-case families (13-26 items)']
