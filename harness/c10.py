"""C10 - bin-covering heuristics meet their approximation guarantees."""
from .pack import job


def jobs(tier):
    J = []; ck = ('c10',)
    for alg in ('cdec', 'c23', 'c34'):
        for n in (2, 3, 4):
            J.append(job(alg, n, checks=ck))
    for alg in ('cdec', 'c23', 'c34'):
        J.append(job(alg, 5, checks=ck)); J.append(job(alg, 6, checks=ck, order='desc')); J.append(job(alg, 7, checks=ck, order='desc'))
    if tier == 'thorough':
        for alg in ('cdec', 'c23', 'c34'):
            J.append(job(alg, 8, checks=ck, order='desc', mandatory=False)); J.append(job(alg, 6, checks=ck, mandatory=False))
    return J


ASSUMPTIONS = ['S1 numpy shim', 'S2 exact arithmetic', 'OPT from the expansion oracle over all assignments']
OUTSIDE = ['more than 7 (quick) / 8 (thorough) items', 'planted instances with hundreds of items', 'published worst-case families (13-26 items)']
