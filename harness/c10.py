"""C10 - bin-covering heuristics meet their approximation guarantees."""
from .pack import job


def jobs(tier):
    J = []; ck = ('c10',)
    for alg in ('cdec', 'c23', 'c34'):
        for n in (2, 3, 4):
            J.append(job(alg, n, checks=ck))
    for alg in ('cdec', 'c23', 'c34'):
        J.append(job(alg, 5, checks=ck)); J.append(job(alg, 6, checks=ck, order='desc')); J.append(job(alg, 7, checks=ck, order='desc'))
    # tier C: 17-24 items taking one, two or three distinct symbolic values (the 3/4*OPT - 4 clause only bites once OPT >= 6)
    for g in ([18], [20], [1, 16], [2, 16], [1, 17]):
        J.append(job('c34', sum(g), checks=ck, order='desc', groups=g))
    for g in ([12], [2, 10]):
        J.append(job('cdec', sum(g), checks=ck, order='desc', groups=g)); J.append(job('c23', sum(g), checks=ck, order='desc', groups=g))
    if tier == 'thorough':
        for g in ([24], [1, 20], [3, 15], [9, 9], [1, 1, 16], [16, 1], [16, 2]):
            J.append(job('c34', sum(g), checks=ck, order='desc', groups=g, mandatory=False))
        for g in ([16], [8, 8], [1, 2, 9]):
            J.append(job('cdec', sum(g), checks=ck, order='desc', groups=g, mandatory=False)); J.append(job('c23', sum(g), checks=ck, order='desc', groups=g, mandatory=False))
        for alg in ('cdec', 'c23', 'c34'):
            J.append(job(alg, 8, checks=ck, order='desc', mandatory=False)); J.append(job(alg, 6, checks=ck, mandatory=False))
    return J


ASSUMPTIONS = ['S1 numpy shim', 'S2 exact arithmetic', 'OPT from the expansion oracle over all assignments']
OUTSIDE = ['more than 7 (quick) / 8 (thorough) items with pairwise independent values; more than 20 (quick) / 24 (thorough) items with at most three distinct values', 'planted instances with hundreds of items', 'published worst-case families (13-26 items)']
