"""C11 - anytime algorithms are safe to interrupt and only ever improve (symbolic clock, stub S5).

The limit test forks at every expanded node, so every interruption point of every input of the shape is a path."""
import z3
from .common import *   # noqa: F401,F403
from .common import (prtpy, out, prt, O, objective, item_vars, numbers, NAMES, zsum, zmax, zmin, zabs, zi, objective_z,
                     optimal_among_partitions, multiset_eq, describe, mod, finite)
from pathsym.clock import Clock, installed


def sums_of(lists, zx):
    return [zsum(zx[a] for a in l) for l in lists]


class CG:
    """complete greedy under a symbolic clock: one run (validity, optimal if never interrupted) or two runs (monotonicity, LPT first)"""
    def __init__(self, n, k, obj, runs=1, lo=0, order='any'):
        self.n = n; self.k = k; self.obj = obj; self.runs = runs; self.lo = lo; self.order = order

    def setup(self, c):
        idx = item_vars(c, self.n, self.lo, self.order)
        L = [c.newvar('L%d' % r) for r in range(self.runs)]
        for l in L: c.assume(c.zvars[l] > 0)
        c.ns['x'] = [c.zvars[i] for i in idx]
        return (idx, L)

    def fn(self, c, idx, L):
        n, k = self.n, self.k
        M = mod('prtpy.partitioning.complete_greedy')
        names = list(NAMES[:n]); xs = [c.zvars[i] for i in idx]; zx = dict(zip(names, xs))
        vals = dict(zip(names, numbers(c, idx)))
        o = objective(self.obj)
        runs = []
        for r, l in enumerate(L):
            clk = Clock(c, 'AB'[r])
            with installed(M, clk):
                try:
                    res = M.anytime(prtpy.BinnerKeepingContents(vals.__getitem__), k, names, objective=o, time_limit=c.num(l))
                except Exception as e:
                    c.report('exception', '%s: %s' % (type(e).__name__, e)); return
            nreads = len(clk.reads)
            fired = bool(c.num(clk.reads[-1]) > c.num(clk.reads[0]) + c.num(l)) if nreads > 1 else False
            iterations = nreads - 1 - (1 if fired else 0)
            if res is not None:
                lists = [list(x) for x in res[1]]
                if sorted(x for b in lists for x in b) != names or len(lists) != k:
                    c.report('invalid-partition-after-interrupt', 'run %d interrupted after %d iterations returned %s' % (r, iterations, lists)); return
                zs = sums_of(lists, zx)
                if not c.check('sums-wrong-after-interrupt', z3.And([zi(res[0][i]) == zs[i] for i in range(k)]), 'reported sums differ from the bins'):
                    return
            else:
                lists = None; zs = None
            runs.append((lists, zs, fired, iterations))
        c.outcome = {'runs': [[describe(r[0]) if r[0] is not None else None, r[2], r[3]] for r in runs]}
        for lists, zs, fired, iterations in runs:
            if not fired:
                if lists is None:
                    c.report('missing-result', 'the search ran to completion without a result'); return
                c.check('suboptimal-without-interrupt', optimal_among_partitions(self.obj, zs, xs, k), 'not interrupted, yet the result is not optimal')
            if lists is not None and iterations == n + 1:
                # the first leaf of the depth-first search is the LPT partition
                g = prtpy.partition(prt.greedy, k, names, valueof=vals.__getitem__, outputtype=out.PartitionAndSumsTuple)
                c.check('first-solution-not-lpt', multiset_eq(zs, sums_of([list(x) for x in g[1]], zx)), 'the first solution differs from greedy (LPT)')
            if lists is None and iterations >= n + 1:
                c.report('no-solution-after-first-leaf', 'interrupted after %d iterations (first leaf reached after %d) but nothing returned' % (iterations, n + 1))
        if len(runs) == 2:
            (la, za, fa, ia), (lb, zb, fb, ib) = runs
            later = (not fb) or (fa and ib >= ia)
            if later:
                if la is not None and lb is None:
                    c.report('result-lost-with-larger-limit', 'run A (%d iterations) returned a partition, run B (%d iterations) none' % (ia, ib)); return
                if la is not None and lb is not None:
                    c.check('worse-with-larger-limit', objective_z(self.obj, zb) <= objective_z(self.obj, za), 'the run that stopped later returned a worse partition')


class CBLDM:
    def __init__(self, n, runs=1, order='any', d=None):
        self.n = n; self.runs = runs; self.order = order; self.d = d

    def setup(self, c):
        idx = item_vars(c, self.n, 0, self.order)
        L = [c.newvar('L%d' % r) for r in range(self.runs)]
        for l in L: c.assume(c.zvars[l] > 0)
        c.ns['x'] = [c.zvars[i] for i in idx]
        return (idx, L)

    def fn(self, c, idx, L):
        n = self.n
        M = mod('prtpy.partitioning.cbldm')
        names = list(NAMES[:n]); xs = [c.zvars[i] for i in idx]; zx = dict(zip(names, xs))
        vals = dict(zip(names, numbers(c, idx)))
        runs = []
        for r, l in enumerate(L):
            clk = Clock(c, 'AB'[r])
            with installed(M, clk):
                try:
                    kw = {} if self.d is None else {'partition_difference': self.d}
                    res = M.cbldm(prtpy.BinnerKeepingContents(vals.__getitem__), 2, names, time_limit=c.num(l), **kw)
                except Exception as e:
                    c.report('exception', '%s: %s' % (type(e).__name__, e)); return
            sums, lists = res
            # progress = number of clock readings before the limit first fired (after that every pending call still reads the clock)
            nreads = len(clk.reads); fired = False
            for i in range(1, len(clk.reads)):
                if c.num(clk.reads[i]) - c.num(clk.reads[0]) >= c.num(l):
                    fired = True; nreads = i; break
            if any(not finite(s) for s in sums):
                runs.append((None, None, fired, nreads)); continue        # the explicit no-solution-yet placeholder
            lists = [list(x) for x in lists]
            if sorted(x for b in lists for x in b) != names or len(lists) != 2:
                c.report('invalid-partition-after-interrupt', 'returned %s' % lists); return
            zs = sums_of(lists, zx)
            if not c.check('sums-wrong-after-interrupt', z3.And([zi(sums[i]) == zs[i] for i in range(2)]), 'reported sums differ from the bins'):
                return
            runs.append((lists, zs, fired, nreads))
        c.outcome = {'runs': [[describe(r[0]) if r[0] is not None else None, r[2], r[3]] for r in runs]}
        tot = zsum(xs)
        for lists, zs, fired, nreads in runs:
            if not fired:
                if lists is None:
                    c.report('missing-result', 'not interrupted but no partition returned'); return
                mine = zabs(zs[0] - zs[1])
                import itertools
                dd = n if self.d is None else self.d
                if abs(len(lists[0]) - len(lists[1])) > dd:
                    c.report('cardinality-bound', 'bin sizes %d and %d differ by more than %s' % (len(lists[0]), len(lists[1]), dd)); return
                conj = [z3.Or(mine <= 2 * zsum(xs[i] for i in S) - tot, mine <= tot - 2 * zsum(xs[i] for i in S)) for r in range(n + 1) if abs(2 * r - n) <= dd for S in itertools.combinations(range(n), r)]
                c.check('suboptimal-without-interrupt', z3.And(conj), 'not interrupted, yet the two-way difference is not minimal')
        if len(runs) == 2:
            (la, za, fa, ia), (lb, zb, fb, ib) = runs
            if (not fb) or (fa and ib >= ia):
                if la is not None and lb is None:
                    c.report('result-lost-with-larger-limit', 'run A returned a partition, the later run B none'); return
                if la is not None and lb is not None:
                    c.check('worse-with-larger-limit', zabs(zb[0] - zb[1]) <= zabs(za[0] - za[1]), 'the run that stopped later returned a worse partition')


class Gen:
    """the CKK generator yields only valid partitions, each strictly better than the previous, ending with an optimal one"""
    def __init__(self, n, k, order='any'):
        self.n = n; self.k = k; self.order = order

    def setup(self, c):
        idx = item_vars(c, self.n, 0, self.order)
        c.ns['x'] = [c.zvars[i] for i in idx]
        return (idx,)

    def fn(self, c, idx):
        from prtpy.partitioning.complete_karmarkar_karp_sy import generator
        n, k = self.n, self.k
        names = list(NAMES[:n]); xs = [c.zvars[i] for i in idx]; zx = dict(zip(names, xs))
        vals = dict(zip(names, numbers(c, idx)))
        ys = []; shapes = []
        for part in generator(prtpy.BinnerKeepingContents(vals.__getitem__), k, names):
            lists = [list(l) for l in part[1]]
            if sorted(x for l in lists for x in l) != names or len(lists) != k:
                c.report('invalid-partition-yielded', 'yield #%d: %s' % (len(ys), lists)); return
            zs = sums_of(lists, zx)
            if not c.check('sums-wrong', z3.And([zi(part[0][i]) == zs[i] for i in range(k)]), 'yielded sums differ from the yielded bins'):
                return
            ys.append(zs); shapes.append(describe(lists))
        c.outcome = {'yielded': shapes}
        if not ys:
            c.report('nothing-yielded', 'the generator ended without yielding a partition'); return
        diffs = [zmax(y) - zmin(y) for y in ys]
        if len(diffs) > 1:
            c.check('not-strictly-improving', z3.And([diffs[i + 1] < diffs[i] for i in range(len(diffs) - 1)]), 'a yielded partition is not strictly better than the previous one')
        c.check('last-not-optimal', optimal_among_partitions('diff', ys[-1], xs, k), 'the last yielded partition is not optimal')


def make(kind, **params):
    return {'cg': CG, 'cbldm': CBLDM, 'gen': Gen}[kind](**params)


def job(kind, mandatory=True, **params):
    tag = ' '.join('%s=%s' % (a, b) for a, b in sorted(params.items()))
    j = {'id': '%s under symbolic clock %s' % (kind, tag) if kind != 'gen' else 'ckk generator %s' % tag, 'factory': 'harness.c11:make', 'params': dict(kind=kind, **params)}
    if not mandatory: j['mandatory'] = False
    return j


def jobs(tier):
    J = []
    for o in ('diff', 'max', 'min'):
        J.append(job('cg', n=3, k=2, obj=o, runs=2))
        J.append(job('cg', n=4, k=2, obj=o, runs=1)); J.append(job('cg', n=4, k=3, obj=o, runs=1))
        J.append(job('cg', n=2, k=3, obj=o, runs=2))
    J.append(job('cbldm', n=3, runs=2)); J.append(job('cbldm', n=4, runs=1)); J.append(job('cbldm', n=5, runs=1, order='desc'))
    J.append(job('cbldm', n=5, runs=1, order='desc', d=1)); J.append(job('cbldm', n=4, runs=1, d=1)); J.append(job('cbldm', n=5, runs=1, order='desc', d=2))
    for o in ('diff', 'max', 'min'):
        J.append(job('cg', n=5, k=2, obj=o, runs=1, order='desc'))
    for (n, k) in ((3, 2), (4, 2), (4, 3), (2, 3), (3, 1)):
        J.append(job('gen', n=n, k=k))
    J.append(job('gen', n=5, k=2, order='desc'))
    if tier == 'thorough':
        for o in ('diff', 'max', 'min'):
            J.append(job('cg', n=4, k=2, obj=o, runs=2, order='desc')); J.append(job('cg', n=3, k=3, obj=o, runs=2))
            J.append(job('cg', n=5, k=3, obj=o, runs=1, order='desc'))
        J.append(job('cbldm', n=4, runs=2, order='desc')); J.append(job('cbldm', n=6, runs=1, order='desc', d=1)); J.append(job('cbldm', n=6, runs=1, order='desc'))
        J.append(job('gen', n=5, k=3, order='desc'))
    return J


ASSUMPTIONS = ['S1 numpy shim', 'S2 exact arithmetic', 'S5 clock stub: every reading of time.perf_counter is a fresh integer t_i >= t_{i-1} >= 0; time_limit a positive symbolic integer',
               'complete greedy with its default pruning switches']
OUTSIDE = ['more than 4 items with the symbolic clock in the quick tier (5-6 thorough)', 'two-run monotonicity beyond (3,2),(2,3) in the quick tier',
           'non-default pruning switches under interruption']
