"""C14 for the partitioning heuristics: greedy and round-robin against their textbook transcriptions."""
import z3
from .common import *   # noqa: F401,F403
from .common import prtpy, out, part_alg, item_vars, numbers, present, named, names_of, zsum, zq, zi, multiset_eq, item_term, describe
from .pack import bins_equal_as_multisets
from models import reference as ref


class RefPart:
    def __init__(self, alg, n, k, order='any', pres='nv'):
        self.alg = alg; self.n = n; self.k = k; self.order = order; self.pres = pres

    def setup(self, c):
        idx = item_vars(c, self.n, 0, self.order)
        c.ns['x'] = [c.zvars[i] for i in idx]
        return (idx,)

    def fn(self, c, idx):
        xs = [c.zvars[i] for i in idx]
        vals = numbers(c, idx)
        items, valueof = present(self.pres, vals)
        try:
            sums, lists = prtpy.partition(part_alg(self.alg), self.k, items, valueof=valueof, outputtype=out.PartitionAndSumsTuple)
        except Exception as e:
            c.report('exception', '%s: %s' % (type(e).__name__, e)); c.outcome = {'raised': type(e).__name__}; return
        lists = [list(l) for l in lists]
        c.outcome = {'bins': describe(lists) if named(self.pres) else [len(l) for l in lists]}
        term = item_term(self.pres, names_of(self.pres, self.n), xs)
        try:
            zl = [[term(it) for it in l] for l in lists]
        except KeyError:
            c.report('differs-from-definition', 'bins %s contain something that is not an input item' % lists); return
        rb = (ref.lpt if self.alg == 'greedy' else ref.round_robin)(list(vals), self.k)
        rz = [[zi(v) for v in b] for b in rb]
        if self.alg == 'greedy':
            c.check('differs-from-definition', multiset_eq([zsum(l) for l in zl], [zsum(b) for b in rz]), 'greedy: multiset of bin sums differs from LPT')
        else:
            c.check('differs-from-definition', bins_equal_as_multisets(zl, rz), 'round-robin: bins differ from cyclic dealing of the sorted items')


def make(**params):
    return RefPart(**params)


def job(alg, n, k, **kw):
    tag = ' '.join('%s=%s' % (a, b) for a, b in sorted(kw.items()))
    return {'id': '%s (%d,%d) vs textbook %s' % (alg, n, k, tag), 'factory': 'harness.refpart:make', 'params': dict(alg=alg, n=n, k=k, **kw)}
