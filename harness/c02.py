"""C02 - exact partitioners attain the true optimum of their objective (DESIGN.md section 4 C02)."""
from .part import job

EXACT_DIFF = ('ckk', 'snp', 'rnp')
OBJ3 = ('diff', 'max', 'min')
DPOBJ = ('diff', 'max', 'min', 'klargest:1', 'klargest:2', 'klargest:3', 'ksmallest:1', 'ksmallest:2', 'ksmallest:3')


def jobs(tier):
    J = []
    ck = ('c02',)
    T = tier == 'thorough'
    small = [(3, 2), (4, 2), (4, 3), (2, 1), (3, 1), (2, 3), (3, 4)]
    for (n, k) in small:
        for alg in EXACT_DIFF:
            J.append(job('C02', alg, n, k, obj='diff', checks=ck))
    for (n, k) in [(3, 2), (4, 2), (2, 3), (3, 1)]:
        for o in DPOBJ:
            J.append(job('C02', 'dp', n, k, obj=o, checks=ck))
    for o in (DPOBJ if T else ('diff', 'klargest:2', 'ksmallest:2')):
        J.append(job('C02', 'dp', 4, 3, obj=o, checks=ck))
    for (n, k) in [(3, 2), (4, 2), (3, 4), (3, 1)]:
        for o in OBJ3:
            for mask in range(16):
                J.append(job('C02', 'cg', n, k, obj=o, cg_mask=mask, checks=ck))
    for o in OBJ3:
        for mask in (range(16) if T else (0, 1, 2, 4, 8, 11, 15)):
            J.append(job('C02', 'cg', 4, 3, obj=o, cg_mask=mask, checks=ck))
    for alg in (EXACT_DIFF if T else ('snp', 'rnp')):
        J.append(job('C02', alg, 5, 3, obj='diff', order='desc', checks=ck))
    for o in ('diff', 'max', 'min', 'klargest:2', 'ksmallest:2'):
        J.append(job('C02', 'ilp', 3, 2, obj=o, checks=ck))
    J.append(job('C02', 'ilp', 3, 3, obj='diff', checks=ck, order='desc')); J.append(job('C02', 'ilp', 4, 2, obj='min', checks=ck, order='desc'))
    if T:
        for o in ('diff', 'max', 'min', 'klargest:2', 'ksmallest:2'):
            J.append(job('C02', 'ilp', 3, 3, obj=o, checks=ck)); J.append(job('C02', 'ilp', 4, 2, obj=o, checks=ck))
        for alg in EXACT_DIFF + ('cg',):
            for (n, k) in [(5, 2), (5, 4)]:
                kw = dict(cg_mask=11) if alg == 'cg' else {}
                J.append(job('C02', alg, n, k, obj='diff', order='desc', checks=ck, **kw))
        for o in OBJ3:
            J.append(job('C02', 'dp', 5, 2, obj=o, order='desc', checks=ck))
            J.append(job('C02', 'cg', 5, 3, obj=o, cg_mask=11, order='desc', checks=ck))
        J.append(job('C02', 'cg', 5, 3, obj='max', cg_mask=15, order='desc', checks=ck))
        J.append(job('C02', 'snp', 6, 3, obj='diff', order='desc', checks=ck, mandatory=False))
        J.append(job('C02', 'rnp', 6, 3, obj='diff', order='desc', checks=ck, mandatory=False))
    return J


ASSUMPTIONS = ['S1 numpy shim', 'S2 exact arithmetic for float64 sums < 2^53', 'S3 constant hash of symbolic numbers',
               'S6 MIP contract stub for ilp (any feasible optimal integer assignment may be returned)']
OUTSIDE = ['more than 5 items (6+ only through tier B vectors)', 'RNP with more than 5 bins', 'behaviour of the real CBC solver',
           'orders other than non-increasing for the (5,k) shapes']
