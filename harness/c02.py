"""C02 - exact partitioners attain the true optimum of their objective (DESIGN.md section 4 C02)."""
import json, os
from .part import job, tierb

VEC = {v['name']: v for v in json.load(open(os.path.join(os.path.dirname(os.path.dirname(os.path.abspath(__file__))), 'vectors.json')))['partition']}

EXACT_DIFF = ('ckk', 'snp', 'rnp')
OBJ3 = ('diff', 'max', 'min')
DPOBJ = ('diff', 'max', 'min', 'klargest:1', 'klargest:2', 'klargest:3', 'ksmallest:1', 'ksmallest:2', 'ksmallest:3')


def jobs(tier):
    J = []
    ck = ('c02',)
    T = tier == 'thorough'
    small = [(3, 2), (4, 2), (4, 3), (2, 1), (3, 1), (2, 3), (3, 4)]
    for (n, k) in small:
        for alg in EXACT_DIFF:
            J.append(job('C02', alg, n, k, obj='diff', checks=ck))
    for (n, k) in [(3, 2), (4, 2), (2, 3), (3, 1)]:
        for o in DPOBJ:
            J.append(job('C02', 'dp', n, k, obj=o, checks=ck))
    for o in (DPOBJ if T else ('diff',)):
        J.append(job('C02', 'dp', 4, 3, obj=o, checks=ck))
    if not T:
        for o in ('klargest:2', 'ksmallest:2'):
            J.append(job('C02', 'dp', 4, 3, obj=o, order='desc', checks=ck))
    for (n, k) in [(3, 2), (4, 2), (3, 4), (3, 1)]:
        for o in OBJ3:
            for mask in range(16):
                J.append(job('C02', 'cg', n, k, obj=o, cg_mask=mask, checks=ck))
    for o in OBJ3:
        for mask in (range(16) if T else (0, 11, 15)):
            J.append(job('C02', 'cg', 4, 3, obj=o, cg_mask=mask, checks=ck))
    # (5,k) non-increasing: (5,2) contains LPT's tight instance, i.e. the first leaf of complete greedy is not optimal there
    for o in OBJ3:
        for mask in range(16):
            J.append(job('C02', 'cg', 5, 2, obj=o, cg_mask=mask, order='desc', checks=ck))
        for mask in ((11, 15) if o != 'diff' or T else (11,)):
            J.append(job('C02', 'cg', 5, 3, obj=o, cg_mask=mask, order='desc', checks=ck))
    for o in ('klargest:2', 'ksmallest:2', 'klargest:3'):
        J.append(job('C02', 'ilp', 2, 4, obj=o, checks=ck)); J.append(job('C02', 'dp', 3, 4, obj=o, checks=ck, order='desc'))
        if o != 'klargest:3' or T:
            J.append(job('C02', 'ilp', 3, 4, obj=o, order='desc', checks=ck))
    for alg in (EXACT_DIFF if T else ('snp', 'rnp')):
        J.append(job('C02', alg, 5, 3, obj='diff', order='desc', checks=ck))
    for o in ('diff', 'max', 'min', 'klargest:2', 'ksmallest:2'):
        J.append(job('C02', 'ilp', 3, 2, obj=o, checks=ck))
    J.append(job('C02', 'ilp', 3, 3, obj='diff', checks=ck, order='desc')); J.append(job('C02', 'ilp', 4, 2, obj='min', checks=ck, order='desc'))
    # tier B: the repository's own 7-8-item vectors with one position replaced by a solver variable (every value of it)
    W = VEC['walter']
    for h in range(7):
        J.append(tierb('C02', 'rnp', W, 4, [h], obj='diff', checks=ck))
    for h in (1, 4):
        J.append(tierb('C02', 'rnp', W, 3, [h], obj='diff', checks=ck)); J.append(tierb('C02', 'snp', W, 3, [h], obj='diff', checks=ck))
    J.append(tierb('C02', 'ckk', W, 3, [2], obj='diff', checks=ck)); J.append(tierb('C02', 'cg', W, 3, [3], obj='diff', cg_mask=11, checks=ck))
    J.append(tierb('C02', 'rnp', VEC['snp-test-8'], 4, [2], obj='diff', checks=ck))
    # tier C with the oracle: two distinct symbolic values (three-value patterns are run oracle-free in C18)
    for alg in EXACT_DIFF + ('cg',):
        kw = dict(cg_mask=11) if alg == 'cg' else {}
        for (n, k, g) in ((6, 3, [3, 3]), (7, 4, [4, 3]), (7, 4, [3, 4]), (6, 4, [2, 4])):
            if alg == 'ckk' and k > 3: continue
            J.append(job('C02', alg, n, k, obj='diff', order='asc', groups=g, checks=ck, **kw))
    # three distinct symbolic values with stated multiplicities, 6-7 items into 3 bins (cheap at 3 bins even with the oracle)
    for g in ([1, 2, 4], [1, 3, 3], [2, 2, 3], [3, 2, 2], [2, 3, 2], [4, 2, 1], [1, 1, 5], [3, 3, 1]):
        for o in ('min', 'diff'):
            J.append(job('C02', 'cg', 7, 3, obj=o, cg_mask=11, order='desc', groups=g, checks=ck))
    for g in ([1, 2, 4], [2, 2, 3], [3, 3, 1]):
        J.append(job('C02', 'cg', 7, 3, obj='max', cg_mask=15, order='desc', groups=g, checks=ck))
    for g in ([1, 2, 3], [2, 2, 2], [1, 1, 4]):       # all four switches on (heuristic 3 and the seen-states set are off by default)
        for o in ('diff', 'min'):
            J.append(job('C02', 'cg', 6, 3, obj=o, cg_mask=15, order='desc', groups=g, checks=ck))
    for g in ([1, 2, 3], [3, 2, 1], [2, 2, 2], [1, 1, 4], [4, 1, 1], [2, 1, 3]):
        for alg in EXACT_DIFF:
            J.append(job('C02', alg, 6, 3, obj='diff', order='desc', groups=g, checks=ck))
    if T:
        import itertools as _it
        for n in (6, 7):
            for g in [list(c) for c in _it.product(range(1, n), repeat=3) if sum(c) == n]:
                for o in OBJ3:
                    J.append(job('C02', 'cg', n, 3, obj=o, cg_mask=15, order='desc', groups=g, checks=ck))
                for alg in EXACT_DIFF:
                    J.append(job('C02', alg, n, 3, obj='diff', order='desc', groups=g, checks=ck, mandatory=(n == 6)))
    # value lists (the items are the numbers themselves, so equal values are equal ITEMS): repeated values
    for alg in EXACT_DIFF:
        for (n, k, g) in ((5, 3, [4, 1]), (5, 3, [1, 4]), (6, 3, [4, 2]), (5, 2, [3, 2]), (6, 3, [3, 2, 1]), (6, 3, [1, 2, 3])):
            J.append(job('C02', alg, n, k, obj='diff', order='asc', groups=g, pres='list', checks=ck))
        J.append(job('C02', alg, 4, 3, obj='diff', order='desc', pres='list', checks=ck))
    for o in ('max', 'min'):
        J.append(job('C02', 'cg', 6, 3, obj=o, cg_mask=15, order='asc', groups=[3, 3], checks=ck)); J.append(job('C02', 'dp', 6, 3, obj=o, order='asc', groups=[3, 3], checks=ck))
    if T:
        for h in range(7):
            J.append(tierb('C02', 'rnp', W, 3, [h], obj='diff', checks=ck)); J.append(tierb('C02', 'rnp', W, 5, [h], obj='diff', checks=ck))
            J.append(tierb('C02', 'snp', W, 3, [h], obj='diff', checks=ck)); J.append(tierb('C02', 'snp', W, 4, [h], obj='diff', checks=ck))
            J.append(tierb('C02', 'rnp', VEC['c02-text'], 4, [h], obj='diff', checks=ck))
            J.append(tierb('C02', 'ckk', W, 3, [h], obj='diff', checks=ck))
        for h in (0, 3, 6):
            J.append(tierb('C02', 'cg', W, 3, [h], obj='max', cg_mask=15, checks=ck)); J.append(tierb('C02', 'cg', W, 3, [h], obj='min', cg_mask=11, checks=ck))
            J.append(tierb('C02', 'dp', VEC['dp-doctest'], 3, [h], obj='diff', checks=ck))
        for pair in ((1, 4), (3, 5)):
            J.append(tierb('C02', 'rnp', W, 4, list(pair), obj='diff', checks=ck, mandatory=False))
        for h in (0, 3, 7):
            J.append(tierb('C02', 'rnp', VEC['snp-test-8'], 4, [h], obj='diff', checks=ck))
        J.append(tierb('C02', 'rnp', VEC['ilp-doctest-8'], 4, [3], obj='diff', checks=ck, mandatory=False))
        for o in ('diff', 'max', 'min', 'klargest:2', 'ksmallest:2'):
            J.append(job('C02', 'ilp', 3, 3, obj=o, checks=ck)); J.append(job('C02', 'ilp', 4, 2, obj=o, checks=ck))
        for alg in EXACT_DIFF + ('cg',):
            for (n, k) in [(5, 2), (5, 4), (4, 4), (4, 5)]:
                kw = dict(cg_mask=11) if alg == 'cg' else {}
                J.append(job('C02', alg, n, k, obj='diff', order='desc', checks=ck, mandatory=not (k == 4 and n == 5 and alg in ('snp', 'ckk')), **kw))
        for o in OBJ3:
            J.append(job('C02', 'dp', 5, 2, obj=o, order='desc', checks=ck))
            J.append(job('C02', 'cg', 5, 3, obj=o, cg_mask=11, order='desc', checks=ck))
        J.append(job('C02', 'cg', 5, 3, obj='max', cg_mask=15, order='desc', checks=ck))
        J.append(job('C02', 'snp', 6, 3, obj='diff', order='desc', checks=ck, mandatory=False))
        J.append(job('C02', 'rnp', 6, 3, obj='diff', order='desc', checks=ck, mandatory=False))
    return J


ASSUMPTIONS = ['S1 numpy shim', 'S2 exact arithmetic for float64 sums < 2^53', 'S3 constant hash of symbolic numbers',
               'S6 MIP contract stub for ilp (any feasible optimal integer assignment may be returned)']
OUTSIDE = ['more than 5 fully symbolic items; 7-8 items only as tier B (repository vectors with one or two positions symbolic)', 'RNP with more than 5 bins', 'behaviour of the real CBC solver',
           'orders other than non-increasing for the (5,k) shapes']
