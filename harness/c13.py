"""C13 - search bounds are admissible and search enumerators are complete (direct calls of the extension points)."""
import itertools
import z3
from .common import *   # noqa: F401,F403
from .common import (CONCRETE, prtpy, O, item_vars, numbers, present, zsum, zmax, zmin, zq, zi, objective_z, rgs, block_sums,
                     multiset_eq, NAMES, mod, npshim)


def zeq_num(a, term):
    n, d = zq(a)
    return n == term * d


class LowerBound:
    """(a) objective.lower_bound on a sorted vector s, remaining total R, any distribution d_i >= 0 with sum R"""
    def __init__(self, obj, k):
        self.obj = obj; self.k = k

    def setup(self, c):
        k = self.k
        s = item_vars(c, k, 0, 'asc', prefix='s')
        d = item_vars(c, k, 0, 'any', prefix='d')
        R = c.newvar('R')
        c.assume(c.zvars[R] >= 0)
        c.assume(zsum(c.zvars[i] for i in d) == c.zvars[R])
        return (s, d, R)

    def fn(self, c, s, d, R):
        k = self.k
        o = {'min': O.MaximizeSmallestSum, 'max': O.MinimizeLargestSum, 'diff': O.MinimizeDifference}[self.obj]
        sv = numbers(c, s); Rv = c.num(R)
        zsv = [c.zvars[i] for i in s]
        lb = o.lower_bound(tuple(sv), Rv, are_sums_in_ascending_order=True)
        fin = [c.zvars[s[i]] + c.zvars[d[i]] for i in range(k)]
        ln, ld = zq(lb)
        c.check('inadmissible-bound', ln <= objective_z(self.obj, fin) * ld,
                '%s.lower_bound exceeds the objective value of a reachable completion' % self.obj)
        lb_unflagged = o.lower_bound(list(sv), Rv, are_sums_in_ascending_order=False)
        un, ud = zq(lb_unflagged)
        c.check('bound-depends-on-flag', ln * ud == un * ld, 'lower_bound differs between are_sums_in_ascending_order=True and False on a sorted vector')
        perms = list(itertools.permutations(range(k))) if k <= 4 else [tuple(reversed(range(k))), tuple(range(1, k)) + (0,)]
        conj = []
        for p in perms[1:]:
            lbp = o.lower_bound([sv[i] for i in p], Rv, are_sums_in_ascending_order=False)
            pn, pd = zq(lbp)
            conj.append(ln * pd == pn * ld)
        if conj:
            c.check('bound-depends-on-order', z3.And(conj), 'lower_bound (flag off) differs between permutations of the same sums')
        c.outcome = {'evaluated': len(perms) + 1}


class Tree:
    """(b) InExclusionBinTree.generate_tree with symbolic values and a symbolic rational window [lo/den, hi/den]"""
    def __init__(self, n, den=1, order='any'):
        self.n = n; self.den = den; self.order = order

    def setup(self, c):
        idx = item_vars(c, self.n, 0, self.order)
        lo = c.newvar('lo'); hi = c.newvar('hi')
        c.ns['x'] = [c.zvars[i] for i in idx]
        return (idx, lo, hi)

    def fn(self, c, idx, lo, hi):
        from prtpy.inclusion_exclusion_tree import InExclusionBinTree
        n = self.n; names = list(NAMES[:n])
        xs = [c.zvars[i] for i in idx]
        vals = dict(zip(names, numbers(c, idx)))
        lov, hiv = c.num(lo), c.num(hi)
        if self.den != 1:
            lov = lov / self.den; hiv = hiv / self.den
        tree = InExclusionBinTree(items=names, valueof=vals.__getitem__, lower_bound=lov, upper_bound=hiv)
        yielded = [tuple(sorted(s)) for s in tree.generate_tree()]
        c.outcome = {'yielded': [list(y) for y in sorted(yielded)]}
        if len(set(yielded)) != len(yielded):
            c.report('subset-yielded-twice', 'yielded %s' % yielded)
        ys = set(yielded)
        conj = []
        zx = dict(zip(names, xs))
        for r in range(n + 1):
            for S in itertools.combinations(names, r):
                t = zsum(zx[a] for a in S) * self.den
                inside = z3.And(c.zvars[lo] <= t, t <= c.zvars[hi])
                conj.append(inside if tuple(sorted(S)) in ys else z3.Not(inside))
        if not c.check('enumerator-incomplete-or-unsound', z3.And(conj), 'the yielded sub-collections are not exactly those whose total lies within the bounds'):
            return
        # the same tree object enumerated again: after an abandoned enumeration, and by two generators advanced alternately
        g = tree.generate_tree()
        for _ in range(min(2, len(yielded))):
            next(g)
        g.close()
        again = [tuple(sorted(s)) for s in tree.generate_tree()]
        if sorted(again) != sorted(yielded):
            c.report('enumerator-depends-on-history', 'after an abandoned enumeration the same tree yields %s instead of %s' % (again, yielded)); return
        g1, g2 = tree.generate_tree(), tree.generate_tree()
        a1, a2 = [], []
        for _ in range(len(yielded) + 1):
            for g, acc in ((g1, a1), (g2, a2)):
                try: acc.append(tuple(sorted(next(g))))
                except StopIteration: pass
        if sorted(a1) != sorted(yielded) or sorted(a2) != sorted(yielded):
            c.report('enumerator-depends-on-history', 'two interleaved enumerations of one tree yield %s and %s instead of %s' % (a1, a2, yielded))


class CombSums:
    """(c) BinnerKeepingSums.all_combinations on two symbolic sum arrays"""
    def __init__(self, k, sorted_inputs=False, cont='list'):
        self.k = k; self.sorted_inputs = sorted_inputs; self.cont = cont

    def setup(self, c):
        order = 'asc' if self.sorted_inputs else 'any'
        a = item_vars(c, self.k, 0, order, prefix='a'); b = item_vars(c, self.k, 0, order, prefix='b')
        return (a, b)

    def fn(self, c, a, b):
        k = self.k
        za = [c.zvars[i] for i in a]; zb = [c.zvars[i] for i in b]
        A, _ = present(self.cont, numbers(c, a)); Bv, _ = present(self.cont, numbers(c, b))
        binner = prtpy.BinnerKeepingSums()
        ys = [[zi(v) for v in y] for y in binner.all_combinations(A, Bv)]
        c.outcome = {'yielded': len(ys)}
        conj = []
        perms = list(itertools.permutations(range(k)))
        for p in perms:
            comb = [za[p[i]] + zb[i] for i in range(k)]
            conj.append(z3.Or([multiset_eq(y, comb) for y in ys]) if ys else z3.BoolVal(False))
        c.check('combination-missing', z3.And(conj), 'some pairing of the bins is not among the yielded combinations')
        conj = [z3.Or([multiset_eq(y, [za[p[i]] + zb[i] for i in range(k)]) for p in perms]) for y in ys]
        c.check('combination-invented', z3.And(conj), 'a yielded combination is not a pairing of the bins')
        conj = [z3.Not(multiset_eq(ys[i], ys[j])) for i in range(len(ys)) for j in range(i + 1, len(ys))]
        if conj:
            c.check('combination-yielded-twice', z3.And(conj), 'two yielded combinations are equal')


class CombContents:
    """(c) BinnerKeepingContents.all_combinations on two symbolic bins-arrays with concrete names"""
    def __init__(self, k, two_items=False):
        self.k = k; self.two = two_items

    def setup(self, c):
        k = self.k
        n1 = k * (2 if self.two else 1)
        a = item_vars(c, n1, 0, 'any', prefix='a'); b = item_vars(c, k, 0, 'any', prefix='b')
        return (a, b)

    def fn(self, c, a, b):
        k = self.k
        per = 2 if self.two else 1
        an = ['a%d' % i for i in range(len(a))]; bn = ['b%d' % i for i in range(k)]
        vals = dict(zip(an + bn, numbers(c, a) + numbers(c, b)))
        zv = dict(zip(an + bn, [c.zvars[i] for i in a] + [c.zvars[i] for i in b]))
        binner = prtpy.BinnerKeepingContents(vals.__getitem__)
        b1 = binner.new_bins(k); b2 = binner.new_bins(k)
        for i, nm in enumerate(an): binner.add_item_to_bin(b1, nm, i // per)
        for i, nm in enumerate(bn): binner.add_item_to_bin(b2, nm, i)
        snap1 = [list(l) for l in b1[1]]; snap2 = [list(l) for l in b2[1]]
        ys = list(binner.all_combinations(b1, b2))
        c.outcome = {'yielded': len(ys)}
        if [list(l) for l in b1[1]] != snap1 or [list(l) for l in b2[1]] != snap2:
            c.report('argument-modified', 'all_combinations changed the contents of an argument')
        keys = []
        conj = []
        for sums, lists in ys:
            keys.append(frozenset(tuple(sorted(l)) for l in lists))
            for i, l in enumerate(lists):
                conj.append(zi(sums[i]) == zsum(zv[x] for x in l))
            conj += [zi(sums[i]) <= zi(sums[i + 1]) for i in range(k - 1)]
        want = set()
        for p in itertools.permutations(range(k)):
            want.add(frozenset(tuple(sorted(snap1[p[i]] + snap2[i])) for i in range(k)))
        if set(keys) != want:
            c.report('combination-missing-or-invented', 'yielded %d distinct pairings, %d exist' % (len(set(keys)), len(want)))
        if len(set(keys)) != len(keys):
            c.report('combination-yielded-twice', '%d yielded, %d distinct' % (len(keys), len(set(keys))))
        if conj:
            c.check('combination-inconsistent', z3.And(conj), 'a yielded array has sums that do not describe its contents or is not sorted by sum')


class CombGeneral:
    """(c) BinnerKeepingContents.all_combinations on two bins-arrays whose CONTENTS STRUCTURE is symbolic too: each of m1 (m2) named
    items is placed in a bin chosen by a solver variable, so empty bins, bins of different cardinality and equal sums all occur"""
    def __init__(self, k, m1, m2):
        self.k = k; self.m1 = m1; self.m2 = m2

    def setup(self, c):
        a = item_vars(c, self.m1, 0, 'any', prefix='a'); b = item_vars(c, self.m2, 0, 'any', prefix='b')
        return (a, b)

    def fn(self, c, a, b):
        k = self.k
        an = ['a%d' % i for i in range(len(a))]; bn = ['b%d' % i for i in range(len(b))]
        vals = dict(zip(an + bn, numbers(c, a) + numbers(c, b)))
        zv = dict(zip(an + bn, [c.zvars[i] for i in a] + [c.zvars[i] for i in b]))
        binner = prtpy.BinnerKeepingContents(vals.__getitem__)
        b1 = binner.new_bins(k); b2 = binner.new_bins(k)
        for nm in an: binner.add_item_to_bin(b1, nm, c.pick(k, 'p' + nm))
        for nm in bn: binner.add_item_to_bin(b2, nm, c.pick(k, 'p' + nm))
        snap1 = [list(l) for l in b1[1]]; snap2 = [list(l) for l in b2[1]]
        ys = list(binner.all_combinations(b1, b2))
        c.outcome = {'structure': [snap1, snap2], 'yielded': len(ys)}
        keys = []
        conj = []
        for sums, lists in ys:
            keys.append(tuple(sorted(tuple(sorted(l)) for l in lists)))
            for i, l in enumerate(lists):
                conj.append(zi(sums[i]) == zsum(zv[x] for x in l))
            conj += [zi(sums[i]) <= zi(sums[i + 1]) for i in range(k - 1)]
        want = set()
        for p in itertools.permutations(range(k)):
            want.add(tuple(sorted(tuple(sorted(snap1[p[i]] + snap2[i])) for i in range(k))))
        if set(keys) != want:
            c.report('combination-missing-or-invented', 'bins %s x %s: yielded %d distinct pairings, %d exist' % (snap1, snap2, len(set(keys)), len(want)))
        if len(set(keys)) != len(keys):
            c.report('combination-yielded-twice', 'bins %s x %s: %d yielded, %d distinct' % (snap1, snap2, len(keys), len(set(keys))))
        if conj:
            c.check('combination-inconsistent', z3.And(conj), 'a yielded array has sums that do not describe its contents or is not sorted by sum')


class CombValues:
    """(c) BinnerKeepingContents.all_combinations when the items are the VALUES themselves (plain number lists) and all of them are
    equal to one symbolic value v: bins are then multisets of equal numbers, so two different pairings can produce the same distinct bins
    with different multiplicities.  The contents structure is symbolic (canonical: the i-th item goes to a bin index >= the (i-1)-th's)."""
    def __init__(self, k, m1, m2):
        self.k = k; self.m1 = m1; self.m2 = m2

    def setup(self, c):
        v = c.newvar('v'); c.assume(c.zvars[v] >= 1)
        return (v,)

    def fn(self, c, v):
        k = self.k
        val = c.num(v)
        binner = prtpy.BinnerKeepingContents()
        b1 = binner.new_bins(k); b2 = binner.new_bins(k)
        shape = [[0] * k, [0] * k]
        for which, (bins, m) in enumerate(((b1, self.m1), (b2, self.m2))):
            last = 0
            for i in range(m):
                j = last + c.pick(k - last, 'p%d_%d' % (which, i))
                binner.add_item_to_bin(bins, val, j); shape[which][j] += 1; last = j
        ys = list(binner.all_combinations(b1, b2))
        c.outcome = {'structure': shape, 'yielded': len(ys)}
        # with equal items a bin is characterised by its number of items
        keys = [tuple(sorted(len(l) for l in lists)) for sums, lists in ys]
        want = set(tuple(sorted(shape[0][p[i]] + shape[1][i] for i in range(k))) for p in itertools.permutations(range(k)))
        if set(keys) != want:
            c.report('combination-missing-or-invented', 'bins with %s and %s equal items: yielded %d distinct pairings %s, %d exist %s'
                     % (shape[0], shape[1], len(set(keys)), sorted(set(keys)), len(want), sorted(want)))
        if len(set(keys)) != len(keys):
            c.report('combination-yielded-twice', 'bins with %s and %s equal items: %d yielded, %d distinct' % (shape[0], shape[1], len(keys), len(set(keys))))


class CkkBound:
    """CKK's difference bound on a heap of singleton arrays against the expansion oracle"""
    def __init__(self, n, k):
        self.n = n; self.k = k

    def setup(self, c):
        idx = item_vars(c, self.n, 0, 'any')
        return (idx,)

    def fn(self, c, idx):
        from prtpy.partitioning.karmarkar_karp_sy import BinsSortedByMaxDiff
        ckk = mod('prtpy.partitioning.complete_karmarkar_karp_sy')
        n, k = self.n, self.k
        xs = [c.zvars[i] for i in idx]
        names = list(NAMES[:n]); vals = dict(zip(names, numbers(c, idx)))
        binner = prtpy.BinnerKeepingContents(vals.__getitem__)
        heap = BinsSortedByMaxDiff(binner)
        for nm in names:
            heap.push(binner.add_item_to_bin(binner.new_bins(k), item=nm, bin_index=k - 1))
        lb = ckk._possible_partition_difference_lower_bound(heap, k)
        c.outcome = {'evaluated': 1}
        if isinstance(lb, float):      # inf / nan (one bin): no claim is made by such a bound unless it prunes
            if lb != lb or lb > 0:
                return
        ln, ld = zq(lb)
        conj = []
        for a in rgs(n, k):
            ss = block_sums(a, xs, k)
            conj.append(-ln <= (zmax(ss) - zmin(ss)) * ld)
        c.check('inadmissible-bound', z3.And(conj), 'the CKK difference bound exceeds the difference of a reachable partition')


KINDS = {'lb': LowerBound, 'tree': Tree, 'combsums': CombSums, 'combcontents': CombContents, 'combgeneral': CombGeneral, 'combvalues': CombValues, 'ckkbound': CkkBound}


def make(kind, **params):
    return KINDS[kind](**params)


def job(kind, mandatory=True, **params):
    tag = ' '.join('%s=%s' % (a, b) for a, b in sorted(params.items()))
    j = {'id': '%s %s' % (kind, tag), 'factory': 'harness.c13:make', 'params': dict(kind=kind, **params)}
    if not mandatory: j['mandatory'] = False
    return j


def jobs(tier):
    J = []
    for o in ('min', 'max', 'diff'):
        for k in (1, 2, 3, 4, 5):
            J.append(job('lb', obj=o, k=k))
    for n in (1, 2, 3):
        for den in (1, 3):
            J.append(job('tree', n=n, den=den))
    J.append(job('tree', n=4, den=1, order='desc')); J.append(job('tree', n=4, den=4, order='desc'))
    J.append(job('tree', n=5, den=5, order='desc'))
    for k in (1, 2):
        J.append(job('combsums', k=k)); J.append(job('combcontents', k=k))
    J.append(job('combsums', k=2, cont='arr'))
    J.append(job('combsums', k=3, sorted_inputs=True)); J.append(job('combcontents', k=3))
    J.append(job('combcontents', k=2, two_items=True))
    J.append(job('combvalues', k=3, m1=2, m2=3)); J.append(job('combvalues', k=4, m1=2, m2=3)); J.append(job('combvalues', k=5, m1=1, m2=4)); J.append(job('combvalues', k=5, m1=2, m2=3))
    J.append(job('combgeneral', k=2, m1=3, m2=2)); J.append(job('combgeneral', k=2, m1=2, m2=0)); J.append(job('combgeneral', k=3, m1=3, m2=1))
    for (n, k) in ((3, 2), (4, 2), (4, 3), (3, 1), (5, 3)):
        J.append(job('ckkbound', n=n, k=k))
    if tier == 'thorough':
        J.append(job('tree', n=4, den=1)); J.append(job('tree', n=4, den=3)); J.append(job('tree', n=6, den=2, order='desc'))
        J.append(job('combsums', k=3)); J.append(job('combsums', k=4, sorted_inputs=True, mandatory=False))
        J.append(job('combcontents', k=3, two_items=True)); J.append(job('combcontents', k=4, mandatory=False))
        J.append(job('combgeneral', k=3, m1=3, m2=2)); J.append(job('combgeneral', k=3, m1=4, m2=2, mandatory=False)); J.append(job('combgeneral', k=2, m1=4, m2=3))
        J.append(job('ckkbound', n=5, k=4)); J.append(job('ckkbound', n=6, k=3))
    return J


ASSUMPTIONS = ['S1 numpy shim', 'S2 exact arithmetic (floor/ceil of a/i encoded with a fresh integer quotient; float argument in DESIGN.md section 6)',
               'S3 constant hash (all_combinations de-duplicates through a set)']
OUTSIDE = ['sum vectors longer than 5', 'all_combinations on 5 bins', 'inclusion/exclusion trees over more than 6 items',
           'CKK bound on heaps of non-singleton arrays']
