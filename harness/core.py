"""Runner shared by all property checks: explore the jobs of a property, replay what the solver found
against the real code, apply the known-findings file, write the evidence, set the exit code.

exit 0  the property held on everything explored (known findings are printed as KNOWN-FINDING lines)
exit 1  at least one violation that replays on the real code and is not a known finding (VIOLATION line)
exit 2  harness error: model that does not replay, solver `unknown`, unsupported path, unfinished mandatory shape
"""
import json, os, sys, time, subprocess, hashlib, importlib, tempfile
import z3

VERIF = os.path.dirname(os.path.dirname(os.path.abspath(__file__)))
KNOWN_FILE = os.path.join(VERIF, 'known_findings.json')


def load_known():
    try:
        return json.load(open(KNOWN_FILE))
    except FileNotFoundError:
        return {'findings': [], 'fixed': []}


def _match(entry, job, prop):
    if prop not in entry.get('property', []):
        return False
    m = entry.get('match', {})
    if 'factory' in m and m['factory'] != job['factory']:
        return False
    if 'expr' in m and not eval(m['expr'], {'params': job['params']}):
        return False
    for k, v in m.get('params', {}).items():
        jv = job['params'].get(k)
        if isinstance(v, list):
            if jv not in v: return False
        elif jv != v:
            return False
    return True


def make_known_builder(prop):
    known = [e for e in load_known().get('findings', []) if e.get('status', 'open') == 'open']

    def builder(job, c):
        res = []
        for e in known:
            if not _match(e, job, prop):
                continue
            ns = {'z3': z3, 'Or': z3.Or, 'And': z3.And, 'Not': z3.Not, 'Sum': z3.Sum, 'If': z3.If, 'true': z3.BoolVal(True)}
            ns.update(c.ns)
            try:
                p = eval(e.get('predicate', 'true'), ns)
            except Exception as ex:       # a predicate that cannot be built masks nothing
                sys.stderr.write('known finding %s: predicate not applicable to job %s (%s)\n' % (e['id'], job['id'], ex))
                continue
            if isinstance(p, bool):
                p = z3.BoolVal(p)
            res.append((e['id'], p, e.get('kinds')))
        return res
    return builder


def replay_batch(entries, timeout=900):
    """entries: list of {'job':..., 'values':..., 'choices':...}; returns list of results from a fresh
    interpreter running the real code on the real numpy (PATHSYM_MODE=concrete)."""
    if not entries:
        return []
    fd, path = tempfile.mkstemp(prefix='pathsym_replay_', suffix='.json', dir=os.path.join(VERIF, 'replays'))
    with os.fdopen(fd, 'w') as f:
        json.dump({'entries': entries}, f)
    env = dict(os.environ); env['PATHSYM_MODE'] = 'concrete'
    env['PYTHONPATH'] = VERIF + os.pathsep + env.get('PYTHONPATH', '')
    try:
        p = subprocess.run([sys.executable, '-m', 'harness.replay', path, '--batch'], cwd=VERIF, env=env,
                           capture_output=True, text=True, timeout=timeout)
        lines = [l for l in p.stdout.splitlines() if l.startswith('RESULT ')]
        if not lines:
            return [{'error': 'replay process produced no result: ' + (p.stderr or p.stdout)[-800:]} for _ in entries]
        return json.loads(lines[-1][7:])
    except subprocess.TimeoutExpired:
        return [{'error': 'replay timed out'} for _ in entries]
    finally:
        try: os.unlink(path)
        except OSError: pass


def crosscheck(dumps, timeout=30):
    """re-decide dumped obligations (SMT-LIB2 text, z3's answer) with the cvc5 and z3 4.8 binaries"""
    if not dumps:
        return None
    import shutil
    solvers = [(n, p) for n, p in (('cvc5', shutil.which('cvc5')), ('z3-4.8', '/usr/bin/z3' if os.path.exists('/usr/bin/z3') else None)) if p]
    res = {'obligations': len(dumps), 'solvers': [n for n, _ in solvers], 'agreements': 0, 'disagreements': 0, 'errors': 0, 'timeouts': 0,
           'first_problem': '', 'wall_s': 0.0}
    t0 = time.time()
    d = tempfile.mkdtemp(prefix='pathsym_smt_')
    try:
        for i, (jid, (text, expected)) in enumerate(dumps):
            f = os.path.join(d, 'ob_%d.smt2' % i)
            with open(f, 'w') as fh:
                fh.write('(set-logic ALL)\n' + text if 'set-logic' not in text else text)
            for name, path in solvers:
                cmd = [path, f] if name != 'cvc5' else [path, '--lang=smt2', f]
                try:
                    p = subprocess.run(cmd, capture_output=True, text=True, timeout=timeout)
                    out = (p.stdout + p.stderr).strip()
                except subprocess.TimeoutExpired:
                    res['timeouts'] += 1; continue
                first = out.split('\n')[0].strip() if out else ''
                if '(error' in out or first not in ('sat', 'unsat', 'unknown'):
                    res['errors'] += 1; res['first_problem'] = res['first_problem'] or '%s on %s: %s' % (name, jid, out[:200])
                elif first == 'unknown':
                    res['timeouts'] += 1
                elif first == expected:
                    res['agreements'] += 1
                else:
                    res['disagreements'] += 1; res['first_problem'] = res['first_problem'] or '%s says %s, z3 5.1 said %s on %s' % (name, first, expected, jid)
    finally:
        import shutil as _sh
        _sh.rmtree(d, ignore_errors=True)
    res['wall_s'] = round(time.time() - t0, 1)
    return res


def crosshair_post(prop, functions, tier, rc):
    """thorough tier: run the CrossHair twins of this property's integer kernels and attach the verdicts to the evidence.
    A kernel refuted by CrossHair while pathsym passed (or a blind vacuity guard) is a harness problem (exit 2)."""
    if tier != 'thorough' or os.environ.get('VERIF_CROSSCHECK', '1') == '0':
        return rc
    try:
        p = subprocess.run([sys.executable, os.path.join(VERIF, 'tools', 'crosshair_check.py'), '60'], capture_output=True, text=True, timeout=3000)
        res = json.loads(p.stdout.strip().splitlines()[-1])
    except Exception as e:
        res = {'error': str(e)[:200], 'functions': {}}
    mine = {f: res['functions'].get(f, {'verdict': 'missing'}) for f in functions}
    path = os.path.join(VERIF, 'evidence', '%s.json' % prop)
    ev = json.load(open(path))
    ev['coverage']['crosshair'] = {'tool': res.get('tool'), 'per_condition_timeout_s': res.get('per_condition_timeout_s'), 'kernels': mine,
                                   'vacuity_guard_ok': res.get('vacuity_guard_ok'), 'wall_s': res.get('wall_s'),
                                   'note': 'secondary engine on integer-only kernels; only "confirmed" counts, anything else but "refuted" is inconclusive'}
    bad = [f for f, v in mine.items() if v['verdict'] == 'refuted']
    if bad or not res.get('vacuity_guard_ok'):
        ev['coverage'].setdefault('harness_problems', []).append('CrossHair disagrees or its vacuity guard is blind: %s' % (bad or res.get('error')))
        json.dump(ev, open(path, 'w'), indent=1)
        print('HARNESS-PROBLEM: CrossHair cross-check: refuted %s / guard %s' % (bad, res.get('vacuity_guard_ok')))
        return rc if rc == 1 else 2
    json.dump(ev, open(path, 'w'), indent=1)
    print('CrossHair cross-check: %s' % {f: v['verdict'] for f, v in mine.items()})
    return rc


def _jsonable(x):
    try:
        json.dumps(x); return x
    except TypeError:
        return str(x)


def run_property(prop, tier, jobs, level_note='', assumptions=(), outside=(), workers=None, deadline_s=None,
                 rule=None, extra_evidence=None):
    from pathsym import sched
    t0 = time.time()
    seed = int(os.environ.get('VERIF_SEED', '0') or 0)
    workers = workers or int(os.environ.get('VERIF_WORKERS', '16'))
    deadline_s = deadline_s or int(os.environ.get('VERIF_DEADLINE_S', '900' if tier == 'quick' else '5400'))
    os.makedirs(os.path.join(VERIF, 'replays'), exist_ok=True)
    os.makedirs(os.path.join(VERIF, 'evidence'), exist_ok=True)
    for j in jobs:
        j.setdefault('mandatory', True)
        if not j['mandatory']:
            j.setdefault('budget_s', 150 if tier == 'quick' else 600)      # optional deeper shapes (queued after the mandatory ones): claimed only if they finish in time
    # long shapes first (LPT scheduling of the worker pool): tier B vectors, then by number of items
    jobs.sort(key=lambda j: (0 if j['mandatory'] else 1, 0 if j['id'].startswith('tierB') else 1, -int(j['params'].get('n', j['params'].get('L', 0)) or 0)))
    known_builder = make_known_builder(prop)
    if tier == 'thorough' and os.environ.get('VERIF_CROSSCHECK', '1') != '0':
        # the obligations of the smallest shapes are re-decided by two other solver binaries (cross-check, not the deciding step)
        for j in sorted(jobs, key=lambda j: int(j['params'].get('n', j['params'].get('L', j['params'].get('k', 9))) or 9))[:8]:
            j['dump'] = True

    def progress(agg, el):
        sys.stderr.write('[%s %s] %.0fs paths=%d\n' % (prop, tier, el, sum(a['paths'] for a in agg)))

    agg, crashes, wall = sched.run_jobs(jobs, workers=workers, known_builder=known_builder, deadline_s=deadline_s,
                                        seed=seed, progress=progress)
    # ---------------------------------------------------------------- replay of findings
    to_replay = []
    for j, a in zip(jobs, agg):
        for f in a['findings']:
            if f.get('values') is not None:
                to_replay.append((j, f))
    results = replay_batch([{'job': j, 'values': f['values'], 'choices': f['choices']} for j, f in to_replay])
    violations = []; nonrepro = []
    seen_v = set()
    for (j, f), r in zip(to_replay, results):
        f['replay'] = r
        if r.get('findings'):
            key = (j['id'], f['kind'])
            if key in seen_v:
                continue
            seen_v.add(key)
            violations.append((j, f, r))
        else:
            nonrepro.append((j, f, r))
    # ---------------------------------------------------------------- validation of sampled paths on the real code
    samples = []
    for j, a in zip(jobs, agg):
        if j.get('validate', True):
            for s in a['samples'][:3]:
                samples.append((j, s))
    sres = replay_batch([{'job': j, 'values': s['values'], 'choices': s['choices'], 'apply_known': prop} for j, s in samples])
    validated = 0; mismatches = []
    for (j, s), r in zip(samples, sres):
        if r.get('error') or r.get('findings') or not r.get('ok', True):
            mismatches.append((j['id'], s, r))
        elif not j.get('loose') and r.get('outcome') != json.loads(json.dumps(s['outcome'])):
            mismatches.append((j['id'], s, r))
        else:
            validated += 1
    # ---------------------------------------------------------------- known findings: replay their witnesses
    known = load_known()
    known_lines = []
    kentries = [e for e in known.get('findings', []) if prop in e.get('property', []) and e.get('status', 'open') == 'open']
    kw = [e for e in kentries if e.get('witness')]
    kres = replay_batch([{'job': e['witness']['job'], 'values': e['witness']['values'], 'choices': e['witness'].get('choices', [])} for e in kw])
    hits = {}
    for a in agg:
        for k, v in a['known_hits'].items():
            hits[k] = hits.get(k, 0) + v
    for e, r in zip(kw, kres):
        if r.get('findings'):
            known_lines.append('KNOWN-FINDING: property=%s %s [%s; solver-found failing paths inside the recorded predicate this run: %d]'
                               % (prop, e['what'], e['id'], hits.get(e['id'], 0)))
    # ---------------------------------------------------------------- cross-check with other solvers (thorough tier)
    cross = crosscheck([(j['id'], d) for j, a in zip(jobs, agg) for d in (a.get('dump') or [])][:40])
    # ---------------------------------------------------------------- verdict
    problems = []
    if cross and (cross['disagreements'] or cross['errors']):
        problems.append('cross-check: %d disagreement(s), %d error(s): %s' % (cross['disagreements'], cross['errors'], cross['first_problem']))
    if crashes: problems.append('worker crash: ' + crashes[0][-300:])
    for j, a in zip(jobs, agg):
        if a['errors']:
            problems.append('job %s: harness error: %s' % (j['id'], a['errors'][0][-400:]))
        if a['unsupported'] and j['mandatory']:
            problems.append('job %s: %d unsupported path(s): %s' % (j['id'], a['unsupported'], a['unsupported_msgs'][:1]))
        if (a['unknown'] or a['solver_unknown']) and j['mandatory']:
            problems.append('job %s: solver answered unknown %d time(s)' % (j['id'], a['unknown'] + a['solver_unknown']))
        if not a['complete'] and not a['stopped_after_findings'] and j['mandatory'] and not a['errors']:
            problems.append('job %s: mandatory shape did not finish (%d paths explored)' % (j['id'], a['paths']))
        if a['complete'] and a['obligations'] == 0 and a['with_outcome'] == 0 and not a['findings'] and not j.get('no_obligation_ok'):
            problems.append('job %s: vacuous - no path reached an obligation' % j['id'])
    for jid, s, r in mismatches[:3]:
        problems.append('job %s: sampled path does not replay identically on the real code: symbolic %s, concrete %s'
                        % (jid, json.dumps(s['outcome'])[:200], json.dumps(r)[:300]))
    for j, f, r in nonrepro[:3]:
        problems.append('job %s: model for "%s" does not reproduce on the real code (values %s): %s'
                        % (j['id'], f['kind'], json.dumps(f['values'])[:200], json.dumps(r)[:200]))
    out_lines = []
    vfiles = []
    for j, f, r in violations:
        blob = {'property': prop, 'job': j, 'values': f['values'], 'choices': f['choices'], 'kind': f['kind'],
                'detail': f['detail'], 'observed_on_real_code': r.get('findings')}
        h = hashlib.sha1(json.dumps(blob, sort_keys=True).encode()).hexdigest()[:10]
        path = os.path.join(VERIF, 'replays', '%s-%s.json' % (prop, h))
        with open(path, 'w') as fh:
            json.dump(blob, fh, indent=1)
        vfiles.append(path)
        out_lines.append('VIOLATION property=%s replay=%s' % (prop, path))
        out_lines.append('  job=%s kind=%s %s' % (j['id'], f['kind'], f['detail'][:200]))
        out_lines.append('  input=%s' % json.dumps({k: v for k, v in f['values'].items() if '!' not in k})[:300])
        out_lines.append('  on the real code: %s' % json.dumps(r.get('findings'))[:300])
    # ---------------------------------------------------------------- evidence
    tot = lambda k: sum(a[k] for a in agg)
    finished = [j['id'] for j, a in zip(jobs, agg) if a['complete']]
    unfinished = [j['id'] for j, a in zip(jobs, agg) if not a['complete']]
    funcs = sorted({f for a in agg for f in (a['functions'] or [])})
    sample_out = []
    for (j, s) in samples[:8]:
        sample_out.append({'job': j['id'], 'path_witness': {k: v for k, v in s['values'].items()}, 'decisions_on_path': s['decisions'],
                           'outcome': s['outcome']})
    if not sample_out:
        sample_out = [{'job': j['id'], 'params': j['params']} for j in jobs[:5]]
    nontrivial = sum(a['with_outcome'] for a in agg)
    ev = {
        'property_id': prop, 'tier': tier, 'seed': seed, 'level': 'model_checking',
        'coverage': {
            'states': max(1, tot('paths')),
            'transitions': max(1, tot('decisions') + tot('checks')),
            'traces_validated_against_impl': validated,
            'samples': sample_out,
            'evaluations': max(1, tot('paths')),
            'distinct_nontrivial': nontrivial,
            'rule': rule or ('one evaluation = one feasible execution path of the real prtpy code for a stated shape, i.e. one '
                             'equivalence class of inputs (all integer values satisfying the path condition); paths are pairwise '
                             'disjoint by construction (they differ in at least one branch decision); a path is counted non-trivial '
                             'when it ran to the end of the harness and its obligations were put to the solver'),
            'obligations': tot('obligations'), 'discharged': tot('discharged'),
            'solver_checks': tot('checks'), 'solver_time_s': round(tot('solver_time'), 2), 'cpu_s': round(tot('cpu'), 1),
            'unsupported_paths': tot('unsupported'), 'aborted_paths': tot('aborted'),
            'solver_unknown_answers_retried_in_a_fresh_solver': tot('solver_retries'), 'obligations_unknown_after_retry': tot('solver_unknown'), 'branch_queries_left_undecided_and_explored': tot('branch_unknown'), 'obligations_discharged_by_cvc5_after_z3_gave_up': tot('by_cvc5'),
            'exhaustive': not unfinished,
            'explanation': 'bounded symbolic execution of the real code (pathsym + z3 QF_LIA); every path of every listed shape, '
                           'all integer values at once; states = paths, transitions = branch decisions and solver queries',
            'functions_encoded': funcs,
            'shapes_finished': finished, 'shapes_not_finished': unfinished,
            'per_shape': [{'job': j['id'], 'paths': a['paths'], 'obligations': a['obligations'], 'discharged': a['discharged'],
                           'solver_checks': a['checks'], 'cpu_s': round(a['cpu'], 1), 'complete': a['complete'],
                           'mandatory': j['mandatory']} for j, a in zip(jobs, agg)],
            'bounds': {'inside': [j['id'] for j in jobs], 'outside': list(outside)},
            'known_findings_matched': hits,
            'sampled_paths_mismatching_real_code': len(mismatches),
            'models_not_reproducing': len(nonrepro),
            'engine': 'pathsym (this repository) on z3 ' + z3.get_version_string(),
        },
        'assumptions': list(assumptions),
        'wall_s': round(time.time() - t0, 2),
        'violations': len(violations),
    }
    if cross:
        ev['coverage']['crosscheck'] = cross
    if extra_evidence:
        ev['coverage'].update(extra_evidence(jobs, agg))
    if problems:
        ev['coverage']['harness_problems'] = problems[:10]
    with open(os.path.join(VERIF, 'evidence', '%s.json' % prop), 'w') as fh:
        json.dump(_jsonable(ev), fh, indent=1, default=str)
    for l in known_lines: print(l)
    for l in out_lines: print(l)
    print('%s %s: %d shapes, %d paths, %d obligations (%d discharged), %d solver checks, %.1fs solver, %.1fs wall; validated %d sampled paths on the real code'
          % (prop, tier, len(jobs), tot('paths'), tot('obligations'), tot('discharged'), tot('checks'), tot('solver_time'), time.time() - t0, validated))
    if violations:
        return 1
    if problems:
        for p in problems[:10]:
            print('HARNESS-PROBLEM: ' + p)
        return 2
    return 0
