"""C09 - fit heuristics keep the any-fit invariant and their bin-count bounds."""
from .pack import job


def jobs(tier):
    J = []; ck = ('c09',)
    for alg in ('ff', 'bf', 'ffd', 'bfd'):
        for n in (2, 3, 4):
            J.append(job(alg, n, checks=ck))
    for alg in ('ff', 'bf', 'ffd', 'bfd'):
        J.append(job(alg, 5, checks=ck)); J.append(job(alg, 6, checks=ck, order='desc'))
        J.append(job(alg, 4, checks=ck, pres='list'))
    for alg in ('ff', 'bf'):
        J.append(job(alg, 6, checks=ck)); J.append(job(alg, 7, checks=ck, order='asc')); J.append(job(alg, 7, checks=ck, order='desc'))
    for alg in ('ffd', 'bfd'):
        J.append(job(alg, 7, checks=ck, order='desc'))
    # tier C: 9-12 items taking two or three distinct symbolic values, in runs (eight and more open bins)
    for alg in ('ff', 'bf', 'ffd', 'bfd'):
        for g in ([7, 2], [8, 2], [9, 1], [7, 1, 1], [6, 6]):
            J.append(job(alg, sum(g), checks=ck, order='desc', groups=g))
    for alg in ('ff', 'bf'):
        for g in ([2, 7], [1, 8, 1]):
            J.append(job(alg, sum(g), checks=ck, groups=g))
    if tier == 'thorough':
        for alg in ('ff', 'bf', 'ffd', 'bfd'):
            for g in ([8, 1, 1], [15, 2], [16, 3], [6, 3, 3], [4, 4, 4]):
                J.append(job(alg, sum(g), checks=ck, order='desc', groups=g, mandatory=False))
        for alg in ('ff', 'bf'):
            for g in ([3, 8], [1, 9, 2], [8, 8]):
                J.append(job(alg, sum(g), checks=ck, groups=g, mandatory=False))
        for alg in ('ff', 'bf'):
            J.append(job(alg, 7, checks=ck, mandatory=False)); J.append(job(alg, 8, checks=ck, order='desc', mandatory=False))
        for alg in ('ffd', 'bfd'):
            J.append(job(alg, 6, checks=ck, mandatory=False)); J.append(job(alg, 8, checks=ck, order='desc', mandatory=False))
    return J


ASSUMPTIONS = ['S1 numpy shim', 'S2 exact arithmetic', 'OPT from the expansion oracle over all assignments']
OUTSIDE = ['more than 7 (quick) / 8 (thorough) items with pairwise independent values, more than 12 (quick) / 19 (thorough) items in two or three runs of equal values: the ratio bounds only become tight for dozens of items; at these sizes they are implied by the invariant',
           'planted large instances']


def post(tier, rc):
    from .core import crosshair_post
    return crosshair_post('C09', ['first_fit_any_fit_invariant', 'best_fit_feasible'], tier, rc)
