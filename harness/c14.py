"""C14 - simple heuristics compute exactly what their textbook definitions prescribe."""
from .pack import job
from .refpart import job as pjob


def jobs(tier):
    J = []; ck = ('c14',)
    for alg in ('ff', 'bf', 'ffd', 'bfd', 'cdec', 'c23', 'c34'):
        for n in (2, 3, 4):
            J.append(job(alg, n, checks=ck))
        J.append(job(alg, 3, checks=ck, pres='list'))
        J.append(job(alg, 5, checks=ck)); J.append(job(alg, 6, checks=ck, order='desc'))
    for alg in ('greedy', 'roundrobin'):
        for (n, k) in ((3, 2), (4, 2), (4, 3), (2, 3), (5, 2), (5, 3)):
            J.append(pjob(alg, n, k))
        J.append(pjob(alg, 3, 2, pres='list')); J.append(pjob(alg, 6, 3, order='desc'))
    if tier == 'thorough':
        for alg in ('ff', 'bf', 'ffd', 'bfd', 'cdec', 'c23', 'c34'):
            J.append(job(alg, 7, checks=ck, order='desc')); J.append(job(alg, 6, checks=ck, mandatory=False))
        for alg in ('greedy', 'roundrobin'):
            J.append(pjob(alg, 6, 2)); J.append(pjob(alg, 7, 3, order='desc')); J.append(pjob(alg, 6, 4, order='desc'))
    return J


ASSUMPTIONS = ['S1 numpy shim', 'S2 exact arithmetic', 'reference transcriptions in models/reference.py (written from the cited definitions)']
OUTSIDE = ['more than 6 (quick) / 7 (thorough) items']
