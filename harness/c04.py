"""C04 - bin completion uses the minimum possible number of bins."""
from .pack import job


def jobs(tier):
    J = []; ck = ('c04',)
    for B in (7, 10, 20):
        for n in (2, 3, 4):
            J.append(job('bc', n, B=B, pres='list', lo=1, checks=ck))
    J.append(job('bc', 5, B=10, pres='list', lo=1, order='desc', checks=ck))
    J.append(job('bc', 5, B=7, pres='list', lo=1, order='desc', checks=ck))
    J.append(job('bc', 4, B=100, pres='list', lo=1, order='desc', checks=ck))
    if tier == 'thorough':
        J.append(job('bc', 5, B=20, pres='list', lo=1, checks=ck))
        for B in (10, 20):
            J.append(job('bc', 6, B=B, pres='list', lo=1, order='desc', checks=ck))
        J.append(job('bc', 7, B=20, pres='list', lo=1, order='desc', checks=ck))
        J.append(job('bc', 7, B=10, pres='list', lo=1, order='desc', checks=ck))
    return J


ASSUMPTIONS = ['S1 numpy shim', 'S2 exact arithmetic', 'concrete bin sizes 7, 10, 20, 100; item values symbolic in 1..binsize']
OUTSIDE = ['more than 5 (quick) / 7 (thorough) items', 'other bin sizes', 'named items (known finding, see C07)']
