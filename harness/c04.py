"""C04 - bin completion uses the minimum possible number of bins."""
from .pack import job


def jobs(tier):
    J = []; ck = ('c04',)
    T = tier == 'thorough'
    for B in (7, 10, 20):
        for n in (2, 3, 4):
            J.append(job('bc', n, B=B, pres='list', lo=1, checks=ck))
    for B in (7, 10, 12, 15, 20):
        for n in (5, 6, 7):
            J.append(job('bc', n, B=B, pres='list', lo=1, order='desc', checks=ck))
    J.append(job('bc', 4, B=100, pres='list', lo=1, order='desc', checks=ck))
    J.append(job('bc', 8, B=7, pres='list', lo=1, order='desc', checks=ck))
    J.append(job('bc', 8, B=15, pres='list', lo=1, order='desc', checks=ck))
    if T:
        J.append(job('bc', 5, B=20, pres='list', lo=1, checks=ck)); J.append(job('bc', 5, B=12, pres='list', lo=1, checks=ck))
        for B in (10, 12, 20):
            J.append(job('bc', 8, B=B, pres='list', lo=1, order='desc', checks=ck, mandatory=(B != 20)))
        J.append(job('bc', 9, B=7, pres='list', lo=1, order='desc', checks=ck, mandatory=False))
    return J


ASSUMPTIONS = ['S1 numpy shim', 'S2 exact arithmetic', 'concrete bin sizes 7, 10, 12, 15, 20, 100; item values symbolic in 1..binsize; 5 or more items presented in non-increasing order (the algorithm sorts first)']
OUTSIDE = ['more than 8 items (9 attempted in the thorough tier)', 'other bin sizes', 'named items (known finding, see C07)']
