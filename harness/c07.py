"""C07 - the answer does not depend on how the items are presented."""
from .multi import job

W = 'c07'


def jobs(tier):
    J = []
    for alg in ('greedy', 'roundrobin', 'kk', 'ckk', 'snp', 'rnp', 'cbldm'):
        J.append(job(W, alg, 3, size=2))
        if alg != 'cbldm':
            J.append(job(W, alg, 3, size=3)); J.append(job(W, alg, 4, size=3, order='desc'))
        else:
            J.append(job(W, alg, 4, size=2))
    # repeated values: with a plain list equal values are equal ITEMS, with names they are not
    for alg in ('ckk', 'snp', 'rnp'):
        J.append(job(W, alg, 5, size=3, order='asc', groups=[4, 1])); J.append(job(W, alg, 6, size=3, order='asc', groups=[3, 2, 1]))
    J.append(job(W, 'multifit', 3, size=2, iterations=2))
    for o in ('diff', 'max', 'min'):
        J.append(job(W, 'dp', 3, size=2, obj=o)); J.append(job(W, 'cg', 3, size=2, obj=o))
    J.append(job(W, 'dp', 3, size=3, obj='diff')); J.append(job(W, 'cg', 4, size=3, obj='diff', order='desc'))
    for alg in ('ff', 'ffd', 'bf', 'bfd', 'cdec', 'c23', 'c34'):
        J.append(job(W, alg, 3)); J.append(job(W, alg, 4, order='desc'))
    J.append(job(W, 'c34', 4))
    for B in (7, 10):
        J.append(job(W, 'bc', 2, size=B)); J.append(job(W, 'bc', 3, size=B))
    if tier == 'thorough':
        for alg in ('greedy', 'kk', 'ckk', 'snp', 'rnp'):
            J.append(job(W, alg, 4, size=3)); J.append(job(W, alg, 5, size=3, order='desc'))
        for alg in ('ff', 'ffd', 'bf', 'bfd', 'cdec', 'c23', 'c34'):
            J.append(job(W, alg, 4)); J.append(job(W, alg, 5, order='desc'))
        J.append(job(W, 'bc', 4, size=10))
    return J


ASSUMPTIONS = ['S1 numpy shim; an array input is modelled as a sequence of the values (np.int64 element semantics are outside)', 'S2 exact arithmetic', 'S3 constant hash',
               'names: distinct strings a,b,c,... and distinct small integers 1..n / n..1 unrelated to the values',
               'exact algorithms with 3 or more bins are compared by objective value, others by the multiset of sums']
OUTSIDE = ['real numpy arrays with np.int64 scalars', 'more than 4 items (quick) / 5 (thorough)', 'ilp (its free choice of the optimum multiplies over six presentations)']
