"""C17 - ILP options (copies, weights, additional constraints) are honoured; sums come out ascending.

The real integer_programming.optimal runs against the MIP contract stub (S6): optimize() may return ANY integer
assignment that satisfies the recorded constraints and is optimal for the recorded objective."""
import itertools
import z3
from .common import *   # noqa: F401,F403
from .common import (CONCRETE, prtpy, out, prt, objective, item_vars, numbers, NAMES, zsum, zmax, zmin, zi, zq, objective_z, le_objective, describe, mod)


def count_vectors(total, k):
    if k == 1:
        yield (total,); return
    for a in range(total + 1):
        for rest in count_vectors(total - a, k - 1):
            yield (a,) + rest


class ILP:
    def __init__(self, n, k, obj, weights=None, copies=1, constraint=None, order='any', pres='nv', fixed=None):
        self.fixed = {int(a): b for a, b in (fixed or {}).items()}
        self.n = n; self.k = k; self.obj = obj; self.weights = weights; self.copies = copies; self.constraint = constraint
        self.order = order; self.pres = pres

    def setup(self, c):
        idx = item_vars(c, self.n, 0, self.order, fixed=self.fixed)
        cst = c.newvar('c')
        c.assume(c.zvars[cst] >= 0)
        c.ns['x'] = [c.zvars[i] for i in idx]
        return (idx, cst)

    def fn(self, c, idx, cst):
        n, k = self.n, self.k
        names = list(NAMES[:n]); xs = [c.zvars[i] for i in idx]; zx = dict(zip(names, xs))
        vals = dict(zip(names, numbers(c, idx, self.fixed)))
        cv = c.num(cst); cz = c.zvars[cst]
        copies = self.copies if isinstance(self.copies, list) else [self.copies] * n
        kw = {'objective': objective(self.obj)}
        if self.weights: kw['weights'] = list(self.weights)
        if self.copies != 1: kw['copies'] = self.copies
        con = self.constraint
        if con == 'smallest_eq': kw['additional_constraints'] = lambda sums: [sums[0] == cv]
        elif con == 'largest_le': kw['additional_constraints'] = lambda sums: [sums[-1] <= cv]
        elif con == 'smallest_ge': kw['additional_constraints'] = lambda sums: [sums[0] >= cv]
        if not CONCRETE:
            from pathsym import mipstub
            mod('prtpy.partitioning.integer_programming').mip = mipstub
            mipstub.reset(ub=max(copies))
        w = list(self.weights) if self.weights else [1] * k
        equal_w = len(set(w)) == 1

        def feasible(ss):
            """the caller's constraint on the sums of a candidate (its weighted sums in ascending order: smallest / largest)"""
            if con is None: return z3.BoolVal(True)
            if equal_w:
                if con == 'smallest_eq': return zmin(ss) == cz * w[0]
                if con == 'largest_le': return zmax(ss) <= cz * w[0]
                if con == 'smallest_ge': return zmin(ss) >= cz * w[0]
            raise NotImplementedError

        cands = []
        for rows in itertools.product(*[list(count_vectors(copies[i], k)) for i in range(n)]):
            cands.append([zsum(rows[i][b] * xs[i] for i in range(n)) for b in range(k)])
        aslist = self.pres == 'list'
        try:
            if aslist:
                sums, lists = prtpy.partition(prt.ilp, k, [vals[a] for a in names], outputtype=out.PartitionAndSumsTuple, **kw)
            else:
                sums, lists = prtpy.partition(prt.ilp, k, names, valueof=vals.__getitem__, outputtype=out.PartitionAndSumsTuple, **kw)
        except ValueError as e:
            c.outcome = {'raised': 'ValueError'}
            c.check('refused-although-feasible', z3.And([z3.Not(feasible(ss)) for ss in cands]), 'ValueError raised although a partition satisfying the constraints exists')
            return
        except Exception as e:
            c.report('exception', '%s: %s' % (type(e).__name__, e)); c.outcome = {'raised': type(e).__name__}; return
        lists = [list(l) for l in lists]
        if aslist:
            # the items are the values: every value must occur as often as the copies of the items carrying it add up to
            c.outcome = {'bins': [len(l) for l in lists]}
            if len(lists) != k:
                c.report('not-a-partition', '%d bins' % len(lists)); return
            outz = [zi(v) for l in lists for v in l]
            if not c.check('copies-not-honoured', z3.And([zsum(z3.If(o == xs[i], 1, 0) for o in outz) == zsum(z3.If(xs[j] == xs[i], copies[j], 0) for j in range(n)) for i in range(n)]
                                                         + [z3.Or([o == x for x in xs]) for o in outz]),
                           'some value does not occur as often as the requested copies of the items with that value (copies %s)' % copies):
                return
            zs = [zsum(zi(v) for v in l) for l in lists]
            names_ok = False
        else:
            names_ok = True
            c.outcome = {'bins': describe(lists)}
        for i, nm in enumerate(names if names_ok else []):
            got = sum(l.count(nm) for l in lists)
            if got != copies[i]:
                c.report('copies-not-honoured', 'item %s appears %d times, %d copies requested: %s' % (nm, got, copies[i], lists)); return
        if names_ok:
            if len(lists) != k or any(x not in names for l in lists for x in l):
                c.report('not-a-partition', 'bins %s' % lists); return
            zs = [zsum(zx[a] for a in l) for l in lists]
        c.check('sums-wrong', z3.And([zi(sums[i]) == zs[i] for i in range(k)]), 'reported sums differ from the bins')
        if equal_w:
            c.check('sums-not-ascending', z3.And([zs[i] <= zs[i + 1] for i in range(k - 1)]) if k > 1 else z3.BoolVal(True), 'returned sums are not in non-decreasing order')
        else:
            # bin i is the bin divided by weight i: the model keeps s_i/w_i <= s_{i+1}/w_{i+1}
            c.check('weighted-order-lost', z3.And([zs[i] * w[i + 1] <= zs[i + 1] * w[i] for i in range(k - 1)]),
                    'the i-th returned bin is not the bin whose sum was divided by the i-th weight (weighted sums not ascending)')
        if equal_w:
            c.check('constraint-violated', feasible(zs), 'the returned partition violates the additional constraint')
            mine = objective_z(self.obj, zs)
            c.check('suboptimal-under-constraints', z3.And([z3.Or(z3.Not(feasible(ss)), le_objective(self.obj, mine, ss)) for ss in cands]),
                    'the returned partition is not optimal among those satisfying the constraints')
        elif self.obj == 'min' and con is None:
            # weighted max-min: min_i s_i/w_i is maximal over all labelled assignments
            def wmin_ge(a, b):
                return z3.Or([z3.And([a[i] * w[j] >= b[j] * w[i] for i in range(k)]) for j in range(k)])
            c.check('weighted-suboptimal', z3.And([wmin_ge(zs, ss) for ss in cands]), 'the smallest weighted sum is not maximal (weights %s)' % w)


def make(**params):
    return ILP(**params)


def job(n, k, obj, mandatory=True, **kw):
    tag = ' '.join('%s=%s' % (a, b) for a, b in sorted(kw.items()) if b is not None)
    j = {'id': 'ilp (%d,%d) obj=%s %s' % (n, k, obj, tag), 'factory': 'harness.c17:make', 'params': dict(n=n, k=k, obj=obj, **kw), 'loose': True}
    if not mandatory: j['mandatory'] = False
    return j


def vector_job(name, items, k, obj, **kw):
    j = job(len(items), k, obj, fixed={str(i): v for i, v in enumerate(items)}, **kw)
    j['id'] = 'ilp concrete vector %s k=%d obj=%s %s (every optimum the solver may return)' % (name, k, obj, ' '.join('%s=%s' % (a, b) for a, b in sorted(kw.items())))
    return j


def jobs(tier):
    J = []
    # the repository's own vectors, all values concrete: only the solver's choice among the admissible optima is explored
    W = [46, 39, 27, 26, 16, 13, 10]
    for o in ('min', 'max', 'diff'):
        J.append(vector_job('walter', W, 2, o, weights=[3, 3])); J.append(vector_job('walter', W, 2, o))
    J.append(vector_job('ilp-doctest', [11, 11, 11, 11, 22], 2, 'min', weights=[2, 2])); J.append(vector_job('dp-doctest', [1, 2, 3, 3, 5, 9, 9], 2, 'min', weights=[5, 5]))
    for o in ('min', 'max', 'diff'):
        J.append(job(3, 2, o))
        for con in ('smallest_eq', 'largest_le', 'smallest_ge'):
            J.append(job(3, 2, o, constraint=con))
    J.append(job(2, 2, 'min', copies=2)); J.append(job(2, 2, 'diff', copies=[2, 1])); J.append(job(3, 2, 'max', copies=[0, 1, 2]))
    J.append(job(2, 2, 'max', copies=2, constraint='largest_le'))
    J.append(job(3, 2, 'min', copies=[2, 0, 1], pres='list')); J.append(job(3, 2, 'diff', copies=[0, 1, 2], pres='list')); J.append(job(2, 2, 'min', copies=[2, 1], pres='list'))
    J.append(job(3, 2, 'max', pres='list'))
    J.append(job(3, 2, 'min', copies=[2, 1, 1])); J.append(job(3, 2, 'max', copies=[1, 2, 1])); J.append(job(3, 2, 'diff', copies=[2, 1, 2], order='asc'))
    for o in ('klargest:2', 'ksmallest:2'):
        J.append(job(3, 4, o, order='desc')); J.append(job(2, 4, o)); J.append(job(3, 3, o, order='desc'))
    J.append(job(3, 2, 'min', weights=[3, 3])); J.append(job(3, 2, 'diff', weights=[2, 2], constraint='smallest_ge'))
    J.append(job(3, 2, 'min', weights=[1, 3])); J.append(job(3, 2, 'min', weights=[10, 2]))
    J.append(job(2, 3, 'min')); J.append(job(3, 1, 'max')); J.append(job(2, 4, 'diff', order='desc'))
    J.append(job(3, 3, 'min', order='desc'))
    if tier == 'thorough':
        for o in ('min', 'max', 'diff', 'klargest:2', 'ksmallest:2'):
            J.append(job(3, 3, o)); J.append(job(4, 2, o))
            J.append(job(3, 3, o, constraint='smallest_ge', order='desc'))
        J.append(job(3, 2, 'min', copies=2)); J.append(job(3, 3, 'min', weights=[1, 2, 3], order='desc'))
        for cp in ([2, 1, 1], [1, 1, 2], [2, 2, 1], [1, 2, 0]):
            for o in ('min', 'max', 'diff'):
                J.append(job(3, 2, o, copies=cp)); J.append(job(3, 3, o, copies=cp, order='desc', mandatory=False))
        J.append(job(4, 2, 'min', weights=[2, 1])); J.append(job(4, 3, 'diff', order='desc', mandatory=False))
    return J


ASSUMPTIONS = ['S6 MIP contract stub: optimize() returns any feasible optimal integer assignment (the engine explores all of them), INFEASIBLE when none exists',
               'S1 numpy shim', 'S2 exact arithmetic', 'weights: the concrete positive vectors listed in the job ids', 'item values unbounded non-negative integers (the <=200 restriction of the property concerns the real CBC only)']
OUTSIDE = ['behaviour of the real CBC (time limits, preprocessing faults)', 'more than 4 items or 4 bins', 'additional constraints together with unequal weights']
