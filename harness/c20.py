"""C20 - built-in objectives compute their documented quantity on every sum vector.
Direct symbolic calls of prtpy.obj.<Objective>.value_to_minimize; the oracle terms re-implement the
documented definitions (min, max, max-min, k smallest / largest by expansion over k-subsets,
weight-normalised minimum by cross-multiplication) and never call prtpy."""
import itertools
import z3
from .common import *   # noqa: F401,F403
from .common import CONCRETE, O, item_vars, numbers, present, zsum, zmax, zmin, zq

WEIGHTS = {3: [[1, 1, 1], [1, 3, 4], [5, 2, 3]], 2: [[1, 1], [2, 7]], 1: [[3]], 4: [[1, 3, 4, 2], [7, 7, 1, 2]],
           5: [[1, 1, 1, 3, 4], [2, 3, 5, 7, 11]], 6: [[1, 1, 1, 3, 4, 2]]}


class H:
    def __init__(self, L, cont, sorted_fast=False):
        self.L = L; self.cont = cont; self.sorted_fast = sorted_fast

    def setup(self, c):
        idx = item_vars(c, self.L, 0, 'asc' if self.sorted_fast else 'any', prefix='s')
        c.ns['s'] = [c.zvars[i] for i in idx]
        return (idx,)

    def fn(self, c, idx):
        L = self.L
        xs = [c.zvars[i] for i in idx]
        v = numbers(c, idx)
        s, _ = present(self.cont, v)
        flag = self.sorted_fast
        def val(o):
            return o.value_to_minimize(s, True) if flag else o.value_to_minimize(s)
        conj = []
        conj.append(('smallest', zeq_(val(O.MaximizeSmallestSum), -zmin(xs))))
        conj.append(('largest', zeq_(val(O.MinimizeLargestSum), zmax(xs))))
        conj.append(('difference', zeq_(val(O.MinimizeDifference), zmax(xs) - zmin(xs))))
        for kk in range(1, L + 3):
            ks = min(kk, L)
            subs = [zsum(xs[i] for i in S) for S in itertools.combinations(range(L), ks)]
            conj.append(('ksmallest:%d' % kk, zeq_(val(O.MaximizeKSmallestSums(kk)), -zmin(subs))))
            conj.append(('klargest:%d' % kk, zeq_(val(O.MinimizeKLargestSums(kk)), zmax(subs))))
        if L >= 2 and not flag:
            # one objective OBJECT used on several vectors in a row (a shorter one first): the value must not depend on that history
            for kk in range(1, L + 2):
                ks = min(kk, L)
                subs = [zsum(xs[i] for i in S) for S in itertools.combinations(range(L), ks)]
                small = O.MaximizeKSmallestSums(kk); large = O.MinimizeKLargestSums(kk)
                for o in (small, large):
                    o.value_to_minimize(present(self.cont, v[:1])[0]); o.value_to_minimize(present(self.cont, v[:L - 1])[0])
                conj.append(('ksmallest:%d after shorter vectors' % kk, zeq_(small.value_to_minimize(s), -zmin(subs))))
                conj.append(('klargest:%d after shorter vectors' % kk, zeq_(large.value_to_minimize(s), zmax(subs))))
        n = 0
        if not flag:
            for w in WEIGHTS[L]:
                r = O.MaximizeSmallestWeightedSum(w).value_to_minimize(s)
                if CONCRETE:
                    # the real code divides in float64: compare with the same quantity computed by the oracle in float64
                    conj.append(('weighted%s' % w, z3.BoolVal(float(r) == -min(float(v[i]) / w[i] for i in range(L)))))
                    continue
                rn, rd = zq(r)
                # -r == min_i s_i / w_i   (cross-multiplied, w_i > 0)
                conj.append(('weighted%s' % w, z3.And(z3.And([-rn * w[i] <= xs[i] * rd for i in range(L)]),
                                                     z3.Or([-rn * w[i] == xs[i] * rd for i in range(L)]))))
        else:
            # the weighted objective refuses the sorted fast path
            try:
                O.MaximizeSmallestWeightedSum(WEIGHTS[L][0]).value_to_minimize(s, True)
                c.report('weighted-fastpath-accepted', 'MaximizeSmallestWeightedSum accepted are_sums_in_ascending_order=True')
            except ValueError:
                pass
        for name, f in conj:
            c.check('objective:' + name, f, 'value_to_minimize differs from the documented quantity (%s, container %s, sorted flag %s)' % (name, self.cont, flag))
            n += 1
        c.outcome = {'objectives_evaluated': n}


def zeq_(a, term):
    an, ad = zq(a)
    return an == term * ad


def make(L, cont, sorted_fast=False):
    return H(L, cont, sorted_fast)


def jobs(tier):
    res = []
    Ls = [1, 2, 3, 4, 5] if tier == 'quick' else [1, 2, 3, 4, 5, 6]
    for L in Ls:
        for cont in ('list', 'tuple', 'arr'):
            for sf in (False, True):
                res.append({'id': 'objectives L=%d %s%s' % (L, cont, ' sorted-fast-path' if sf else ''),
                            'factory': 'harness.c20:make', 'params': {'L': L, 'cont': cont, 'sorted_fast': sf}})
    return res


ASSUMPTIONS = ['S1 numpy shim (array container only)', 'S2 exact arithmetic for float64 sums < 2^53',
               'weights: the concrete positive vectors listed in harness/c20.py:WEIGHTS (division by a symbolic weight is not encoded)']
OUTSIDE = ['sum vectors longer than 5', 'weight vectors other than the listed concrete ones', 'numpy float64/int64 element semantics of array inputs']


def post(tier, rc):
    from .core import crosshair_post
    return crosshair_post('C20', ['objectives_on_three_sums', 'objectives_sorted_fast_path'], tier, rc)
