"""C15 - calls are pure: inputs untouched, results repeatable, no state across calls."""
from .multi import job

W = 'c15'


def jobs(tier):
    J = []
    for alg in ('greedy', 'roundrobin', 'kk', 'ckk', 'snp', 'rnp', 'cbldm'):
        J.append(job(W, alg, 3, size=2))
        if alg != 'cbldm': J.append(job(W, alg, 3, size=3, order='desc', other='ckk' if alg != 'ckk' else 'snp'))
    for alg in ('greedy', 'roundrobin', 'kk', 'ckk', 'snp', 'rnp', 'cbldm'):
        J.append(job(W, alg, 1, size=2)); J.append(job(W, alg, 2, size=2))
    for alg in ('ff', 'ffd', 'bf', 'bfd', 'cdec', 'c23', 'c34'):
        J.append(job(W, alg, 1)); J.append(job(W, alg, 2))
    for B in (7, 10):
        J.append(job(W, 'bc', 4, size=B, pres='list', order='desc')); J.append(job(W, 'bc', 5, size=B, pres='list', order='desc', lo=1))
    J.append(job(W, 'bc', 5, size=7, pres='list', order='desc', lo=1, m=4)); J.append(job(W, 'bc', 4, size=10, pres='list', order='desc', lo=1, m=5))
    J.append(job(W, 'bc', 1, size=10, pres='list')); J.append(job(W, 'bc', 6, size=10, pres='list', order='desc', lo=1))
    J.append(job(W, 'multifit', 3, size=2, iterations=2))
    for o in ('diff', 'min'):
        J.append(job(W, 'dp', 3, size=2, obj=o, order='desc')); J.append(job(W, 'cg', 3, size=2, obj=o, other='cg', order='desc'))
    for alg in ('ff', 'ffd', 'bf', 'bfd', 'cdec', 'c23', 'c34'):
        J.append(job(W, alg, 3)); J.append(job(W, alg, 4, order='desc', other='snp'))
    J.append(job(W, 'bc', 3, size=10, pres='list'))
    if tier == 'thorough':
        J.append(job(W, 'bc', 6, size=10, pres='list', order='desc', lo=1, m=5)); J.append(job(W, 'bc', 6, size=7, pres='list', order='desc', lo=1, m=5))
        J.append(job(W, 'ckk', 3, size=2, m=3)); J.append(job(W, 'snp', 3, size=3, order='desc', m=3)); J.append(job(W, 'c34', 3, m=3)); J.append(job(W, 'bfd', 3, m=3))
        for alg in ('greedy', 'kk', 'ckk', 'snp', 'rnp'):
            J.append(job(W, alg, 4, size=2)); J.append(job(W, alg, 4, size=3, order='desc', other='dp'))
        for alg in ('ff', 'ffd', 'bf', 'bfd', 'cdec', 'c23', 'c34'):
            J.append(job(W, alg, 4))
    return J


ASSUMPTIONS = ['S1 numpy shim', 'S2 exact arithmetic', 'S3 constant hash',
               'histories: (a) the request and a related request to the SAME algorithm (other bin size / bin count, reversed items plus one more) in both orders, each answer compared with the same call after restoring every module-level container, class attribute and default argument of prtpy to its import-time value (= fresh interpreter state); (b) call, same call again, another algorithm on another input, two failing calls, same call again (on list, dict and array arguments)',
               'plus the engine itself: every path re-executes the function from the start and compares the branch atoms with the recorded ones; state carried from one execution to the next shows up as a replay mismatch (exit 2)']
OUTSIDE = ['histories longer than the stated six calls', 'more than 4 items']
