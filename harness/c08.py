"""C08 - partitioning heuristics meet their proven worst-case guarantees."""
from .part import job


def jobs(tier):
    J = []; ck = ('c08',)
    for alg in ('greedy', 'roundrobin', 'kk'):
        for (n, k) in ((3, 2), (4, 2), (4, 3), (5, 2), (2, 3), (3, 1)):
            J.append(job('C08', alg, n, k, checks=ck))
        J.append(job('C08', alg, 5, 3, checks=ck, order='desc'))
    for it in (1, 2, 3):
        J.append(job('C08', 'multifit', 4, 2, iterations=it, checks=ck))
        J.append(job('C08', 'multifit', 3, 2, iterations=it, checks=ck))
    J.append(job('C08', 'multifit', 4, 3, iterations=1, checks=ck))
    J.append(job('C08', 'multifit', 3, 2, iterations=10, checks=ck, order='desc'))
    # the default ten iterations on 6-7 items taking two distinct symbolic values, 4-6 bins (tier C)
    T = tier == 'thorough'
    for (n, k, g) in ((6, 5, [2, 4]), (6, 5, [4, 2]), (6, 4, [3, 3]), (7, 5, [6, 1]), (7, 6, [5, 2]), (6, 5, [1, 5]), (7, 5, [3, 4]), (6, 3, [2, 4]), (7, 4, [3, 4])):
        J.append(job('C08', 'multifit', n, k, checks=ck, order='desc', groups=g))
    if T:
        for (n, k, g) in ((8, 5, [4, 4]), (8, 6, [6, 2]), (7, 5, [2, 2, 3]), (6, 4, [2, 2, 2])):
            J.append(job('C08', 'multifit', n, k, checks=ck, order='desc', groups=g, mandatory=False))
    if tier == 'thorough':
        for alg in ('greedy', 'roundrobin', 'kk'):
            J.append(job('C08', alg, 5, 3, checks=ck)); J.append(job('C08', alg, 6, 3, checks=ck, order='desc'))
            J.append(job('C08', alg, 6, 2, checks=ck, order='desc')); J.append(job('C08', alg, 7, 3, checks=ck, order='desc'))
        J.append(job('C08', 'multifit', 5, 2, iterations=2, checks=ck)); J.append(job('C08', 'multifit', 5, 3, iterations=1, checks=ck))
        J.append(job('C08', 'multifit', 4, 2, iterations=4, checks=ck))
        J.append(job('C08', 'multifit', 4, 2, iterations=10, checks=ck, order='desc', mandatory=False))
    return J


ASSUMPTIONS = ['S1 numpy shim', 'S2 exact arithmetic; multifit binary search in exact rationals (denominators k*2^j)', 'OPT from the expansion oracle']
OUTSIDE = ['planted large instances (hundreds of items)', 'more than 5 fully symbolic items (quick) / 7 (thorough)', 'multifit with its default 10 iterations beyond (3,2) and the tier C shapes (6-7 items taking two distinct symbolic values, 3-6 bins)']


def post(tier, rc):
    from .core import crosshair_post
    return crosshair_post('C08', ['greedy_gap_at_most_largest_item', 'roundrobin_cardinalities'], tier, rc)
