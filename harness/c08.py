"""C08 - partitioning heuristics meet their proven worst-case guarantees."""
from .part import job


def jobs(tier):
    J = []; ck = ('c08',)
    for alg in ('greedy', 'roundrobin', 'kk'):
        for (n, k) in ((3, 2), (4, 2), (4, 3), (5, 2), (2, 3), (3, 1)):
            J.append(job('C08', alg, n, k, checks=ck))
        J.append(job('C08', alg, 5, 3, checks=ck, order='desc'))
    for it in (1, 2, 3):
        J.append(job('C08', 'multifit', 4, 2, iterations=it, checks=ck))
        J.append(job('C08', 'multifit', 3, 2, iterations=it, checks=ck))
    J.append(job('C08', 'multifit', 4, 3, iterations=1, checks=ck))
    J.append(job('C08', 'multifit', 3, 2, iterations=10, checks=ck, order='desc'))
    if tier == 'thorough':
        for alg in ('greedy', 'roundrobin', 'kk'):
            J.append(job('C08', alg, 5, 3, checks=ck)); J.append(job('C08', alg, 6, 3, checks=ck, order='desc'))
            J.append(job('C08', alg, 6, 2, checks=ck, order='desc')); J.append(job('C08', alg, 7, 3, checks=ck, order='desc'))
        J.append(job('C08', 'multifit', 5, 2, iterations=2, checks=ck)); J.append(job('C08', 'multifit', 5, 3, iterations=1, checks=ck))
        J.append(job('C08', 'multifit', 4, 2, iterations=4, checks=ck))
        J.append(job('C08', 'multifit', 4, 2, iterations=10, checks=ck, order='desc', mandatory=False))
    return J


ASSUMPTIONS = ['S1 numpy shim', 'S2 exact arithmetic; multifit binary search in exact rationals (denominators k*2^j)', 'OPT from the expansion oracle']
OUTSIDE = ['planted large instances (hundreds of items)', 'more than 5 items (quick) / 7 (thorough)', 'multifit default 10 iterations beyond (3,2)/(4,2) non-increasing input']


def post(tier, rc):
    from .core import crosshair_post
    return crosshair_post('C08', ['greedy_gap_at_most_largest_item', 'roundrobin_cardinalities'], tier, rc)
