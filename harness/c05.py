"""C05 - bin-covering results are valid covers that waste less than one bin."""
from .pack import job


def jobs(tier):
    J = []; ck = ('c05',)
    for alg in ('cdec', 'c23', 'c34'):
        for n in (1, 2, 3, 4):
            J.append(job(alg, n, checks=ck))
        J.append(job(alg, 3, checks=ck, pres='list')); J.append(job(alg, 4, checks=ck, pres='list')); J.append(job(alg, 4, checks=ck, pres='dict'))
    for alg in ('cdec', 'c23', 'c34'):
        J.append(job(alg, 5, checks=ck)); J.append(job(alg, 6, checks=ck, order='desc'))
        J.append(job(alg, 5, checks=ck, pres='list', order='desc'))
    for alg in ('cdec', 'c23', 'c34'):
        J.append(job(alg, 7, checks=ck, order='desc'))
    for alg in ('cdec', 'c23'):
        J.append(job(alg, 8, checks=ck, order='desc'))
    if tier == 'thorough':
        for alg in ('cdec', 'c23'):
            J.append(job(alg, 6, checks=ck)); J.append(job(alg, 9, checks=ck, order='desc', mandatory=False))
        J.append(job('c34', 8, checks=ck, order='desc', mandatory=False)); J.append(job('c34', 6, checks=ck, mandatory=False))
    return J


ASSUMPTIONS = ['S1 numpy shim', 'S2 exact arithmetic (thresholds binsize/2, binsize/3 as exact rationals)']
OUTSIDE = ['more than 6-7 (quick) / 8 (thorough) items']
