"""C05 - bin-covering results are valid covers that waste less than one bin."""
from .pack import job


def jobs(tier):
    J = []; ck = ('c05',)
    for alg in ('cdec', 'c23', 'c34'):
        for n in (1, 2, 3, 4):
            J.append(job(alg, n, checks=ck))
        J.append(job(alg, 3, checks=ck, pres='list')); J.append(job(alg, 4, checks=ck, pres='list')); J.append(job(alg, 4, checks=ck, pres='dict'))
    for alg in ('cdec', 'c23', 'c34'):
        J.append(job(alg, 5, checks=ck)); J.append(job(alg, 6, checks=ck, order='desc'))
        J.append(job(alg, 5, checks=ck, pres='list', order='desc'))
    for alg in ('cdec', 'c23', 'c34'):
        J.append(job(alg, 7, checks=ck, order='desc'))
    for alg in ('cdec', 'c23'):
        J.append(job(alg, 8, checks=ck, order='desc'))
    # tier C: 9-20 items taking one or two distinct symbolic values (every count of bins that such an input can fill)
    for alg in ('cdec', 'c23', 'c34'):
        for g in ([9], [10], [13], [17], [18], [1, 9], [2, 16], [9, 9], [16, 2]):
            J.append(job(alg, sum(g), checks=ck, order='desc', groups=g))
    if tier == 'thorough':
        for alg in ('cdec', 'c23', 'c34'):
            for g in ([11], [12], [19], [20], [25], [26], [3, 8], [8, 3], [1, 2, 9], [9, 2, 1], [5, 5, 5], [12, 12]):
                J.append(job(alg, sum(g), checks=ck, order='desc', groups=g, mandatory=False))
        for alg in ('cdec', 'c23'):
            J.append(job(alg, 6, checks=ck)); J.append(job(alg, 9, checks=ck, order='desc', mandatory=False))
        J.append(job('c34', 8, checks=ck, order='desc', mandatory=False)); J.append(job('c34', 6, checks=ck, mandatory=False))
    return J


ASSUMPTIONS = ['S1 numpy shim', 'S2 exact arithmetic (thresholds binsize/2, binsize/3 as exact rationals)']
OUTSIDE = ['more than 6-8 (quick) / 8-9 (thorough) items with pairwise independent values; more than 18 (quick) / 26 (thorough) items with at most three distinct values']
