"""Symbolic runs of prtpy.pack(...) for the packing and covering properties
(C03 feasibility, C04 bin-completion optimality, C05 cover validity, C09 any-fit, C10 cover ratios, C14 references)."""
import itertools
import z3
from .common import *   # noqa: F401,F403
from .common import (CONCRETE, prtpy, out, pack_alg, item_vars, numbers, present, named, names_of, zsum, zmax, zmin, zi, zq,
                     rgs, block_sums, multiset_eq, sub_multiset, item_term, describe, SymNum, ctx_cache)
from models import reference as ref

PACKERS = ('ff', 'ffd', 'bf', 'bfd', 'bc')
COVERS = ('cdec', 'c23', 'c34')
REF = {'ff': ref.first_fit, 'ffd': ref.first_fit_decreasing, 'bf': ref.best_fit, 'bfd': ref.best_fit_decreasing,
       'cdec': ref.cover_next_fit_decreasing, 'c23': ref.cover_two_thirds, 'c34': ref.cover_three_quarters}


def fits_in(xs, B, m):
    """some assignment of the items into m bins has every bin sum <= B"""
    n = len(xs)
    if m <= 0:
        return z3.BoolVal(n == 0)
    return ctx_cache(('fits', m, n), lambda: z3.Or([z3.And([s <= B for s in block_sums(a, xs, m)]) for a in rgs(n, m)]))


def covers(xs, B, m):
    """some assignment fills m bins to at least B (remaining items unused)"""
    return ctx_cache(('covers', m, len(xs)), lambda: _covers(xs, B, m))


def _covers(xs, B, m):
    n = len(xs)
    if m == 0: return z3.BoolVal(True)
    alts = []
    # blocks 0..m-1 are the covered bins, label m = unused; restricted growth on the covered blocks only
    def rec(i, cur, mx):
        if i == n:
            if mx == m - 1: yield tuple(cur)
            return
        for b in list(range(min(mx + 1, m - 1) + 1)) + [m]:
            cur.append(b)
            yield from rec(i + 1, cur, max(mx, b) if b != m else mx)
            cur.pop()
    for a in rec(0, [], -1):
        alts.append(z3.And([zsum(xs[i] for i in range(n) if a[i] == b) >= B for b in range(m)]))
    return z3.Or(alts) if alts else z3.BoolVal(False)


def vector_partitions(g, m):
    """all ways to split the count vector g into exactly m non-zero parts (unordered: parts are generated in non-increasing lex order)"""
    import itertools as it
    g = tuple(g)
    def parts_le(cap, rem):
        # vectors v with 0 <= v <= rem componentwise, v != 0, v <= cap lexicographically
        for v in it.product(*[range(r, -1, -1) for r in rem]):
            if any(v) and v <= cap:
                yield v
    def rec(rem, k, cap):
        if k == 0:
            if not any(rem): yield ()
            return
        if sum(rem) < k: return
        for v in parts_le(cap, rem):
            for rest in rec(tuple(a - b for a, b in zip(rem, v)), k - 1, v):
                yield (v,) + rest
    yield from rec(g, m, g)


def covers_grouped(groups, uniq, B, m):
    """tier C: some assignment of the items (groups[i] copies of the value uniq[i]) fills m bins to at least B.
    It is enough to consider the assignments that use every item (adding items to a covered bin keeps it covered) and, since
    equal items are interchangeable, only the number of copies of each value that every bin receives."""
    if m == 0: return z3.BoolVal(True)
    def build():
        alts = []; seen = set()
        for vp in vector_partitions(groups, m):
            types = tuple(sorted(set(vp)))
            if types in seen: continue
            seen.add(types)
            alts.append(z3.And([zsum(t[i] * uniq[i] for i in range(len(uniq)) if t[i]) >= B for t in types]))
        return z3.Or(alts) if alts else z3.BoolVal(False)
    return ctx_cache(('coversg', m, tuple(groups)), build)


def fits_in_grouped(groups, uniq, B, m):
    """tier C: some assignment of all items (groups[i] copies of the value uniq[i]) into at most m bins has every bin sum <= B"""
    n = sum(groups)
    if m <= 0: return z3.BoolVal(n == 0)
    def build():
        alts = []; seen = set()
        for k in range(1, min(m, n) + 1):
            for vp in vector_partitions(groups, k):
                types = tuple(sorted(set(vp)))
                if types in seen: continue
                seen.add(types)
                alts.append(z3.And([zsum(t[i] * uniq[i] for i in range(len(uniq)) if t[i]) <= B for t in types]))
        return z3.Or(alts) if alts else z3.BoolVal(False)
    return ctx_cache(('fitsg', m, tuple(groups)), build)


def bins_equal_as_multisets(A, Bn):
    """two lists of bins (z3 value terms) are equal as multisets of multisets"""
    if len(A) != len(Bn): return z3.BoolVal(False)
    if not A: return z3.BoolVal(True)
    alts = []
    for perm in itertools.permutations(range(len(A))):
        if any(len(A[i]) != len(Bn[perm[i]]) for i in range(len(A))):
            continue
        alts.append(z3.And([multiset_eq(A[i], Bn[perm[i]]) for i in range(len(A))]))
    return z3.Or(alts) if alts else z3.BoolVal(False)


class Pack:
    def __init__(self, alg, n, B=None, order='any', pres='nv', lo=None, den=1, checks=('c03',), fixed=None, groups=None):
        self.alg = alg; self.n = n; self.B = B; self.order = order; self.pres = pres; self.den = den
        self.cover = alg in COVERS
        self.lo = lo if lo is not None else (1 if self.cover else 0)
        self.checks = tuple(checks); self.fixed = {int(a): b for a, b in (fixed or {}).items()}; self.groups = groups

    def setup(self, c):
        idx = item_vars(c, self.n, self.lo, self.order, fixed=self.fixed, groups=self.groups)
        xs = [c.zvars[i] for i in idx]
        bi = c.newvar('B')
        Bz = c.zvars[bi]
        if self.B is not None:
            c.assume(Bz == self.B)
        c.assume(Bz > 0)
        if not self.cover and 'c19' not in self.checks:
            for x in xs: c.assume(x <= Bz)
        c.ns['x'] = xs; c.ns['B'] = Bz
        return (idx, bi)

    def fits(self, xs, Bz, m):
        if self.groups:
            return fits_in_grouped(self.groups, [xs[sum(self.groups[:g])] for g in range(len(self.groups))], Bz, m)
        return fits_in(xs, Bz, m)

    def binsize(self, c, bi):
        b = self.B if self.B is not None else c.num(bi)
        return b / self.den if self.den != 1 else b

    def values(self, c, idx):
        vals = numbers(c, idx, self.fixed)
        if self.den != 1:
            vals = [v / self.den for v in vals]
        return vals

    def call(self, c, idx, bi, outputtype=out.PartitionAndSumsTuple, alg=None, pres=None):
        self._vals = self.values(c, idx); self._B = self.binsize(c, bi)
        items, valueof = present(pres or self.pres, self._vals)
        return prtpy.pack(pack_alg(alg or self.alg), self._B, items, valueof=valueof, outputtype=outputtype)

    def term(self, xs):
        """item in an output bin -> z3 numerator term (values are numerator/den)"""
        names = names_of(self.pres, self.n)
        if named(self.pres):
            m = dict(zip(names, xs))
            return lambda it: m[it]
        den = self.den
        def t(it):
            n, d = zq(it)
            if den % d: raise ValueError('unexpected denominator')
            return n * (den // d)
        return t

    def fn(self, c, idx, bi):
        n = self.n
        xs = [c.zvars[i] for i in idx]; Bz = c.zvars[bi]
        try:
            res = self.call(c, idx, bi)
        except Exception as e:
            c.report('exception', '%s: %s' % (type(e).__name__, e)); c.outcome = {'raised': type(e).__name__}; return
        sums, lists = res
        lists = [list(l) for l in lists]
        c.outcome = {'bins': describe(lists) if named(self.pres) else [len(l) for l in lists]}
        names = names_of(self.pres, n)
        term = self.term(xs)
        m = len(lists)
        structural = True
        if named(self.pres):
            flat = [x for l in lists for x in l]
            if len(set(flat)) != len(flat) or any(x not in names for x in flat):
                structural = False
                if {'c03', 'c05'} & set(self.checks):
                    c.report('items-duplicated-or-invented', 'bins %s' % lists)
                if 'c10' in self.checks:
                    c.report('reports-more-than-opt', 'an item is used twice, so the reported number of bins is not a cover of the items: %s' % lists)
                if 'c14' in self.checks:
                    c.report('differs-from-definition', 'bins %s use an item twice or hold something that is not an input item' % lists)
                if 'c09' in self.checks:
                    c.report('any-fit-invariant', 'bins %s use an item twice or hold something that is not an input item' % lists)
        if not structural:
            return
        zl = [[term(it) for it in l] for l in lists]
        zs = [zsum(l) for l in zl]
        if self.cover:
            self.cover_checks(c, xs, Bz, lists, zl, zs, names)
        else:
            self.pack_checks(c, idx, bi, xs, Bz, lists, zl, zs, names)

    # ------------------------------------------------------------------ packing
    def pack_checks(self, c, idx, bi, xs, Bz, lists, zl, zs, names):
        n = self.n; m = len(lists); alg = self.alg
        if 'c03' in self.checks:
            c.check('overfull-bin', z3.And([s <= Bz for s in zs]) if zs else z3.BoolVal(True), 'a bin sum exceeds the bin size: %s' % c.outcome['bins'])
            if any(len(l) == 0 for l in lists):
                c.report('empty-bin', 'bins %s' % lists)
            if named(self.pres):
                flat = [x for l in lists for x in l]
                missing = [nm for nm in names if nm not in flat]
                if missing:
                    if alg == 'bc':
                        zx = dict(zip(names, xs))
                        c.check('item-lost', z3.And([zx[nm] == 0 for nm in missing]), 'bin completion omitted items %s that are not zero-valued' % missing)
                    else:
                        c.report('item-lost', 'items %s are in no bin' % missing)
            else:
                flatz = [t for l in zl for t in l]
                if alg == 'bc':
                    # output multiset == input multiset minus zeros
                    nz = z3.And([zsum(z3.If(o == x, 1, 0) for o in flatz) == z3.If(x == 0, 0, zsum(z3.If(y == x, 1, 0) for y in xs)) for x in xs]
                                + [z3.Or([o == x for x in xs]) for o in flatz] + [o != 0 for o in flatz])
                    c.check('items-not-conserved', nz, 'output values are not the non-zero input values')
                else:
                    c.check('items-not-conserved', multiset_eq(flatz, xs), 'output values are not the input values')
            cnt = self.call(c, idx, bi, outputtype=out.BinCount)
            if cnt != m:
                c.report('bincount-differs', 'BinCount output %s, %d bins returned' % (cnt, m))
        if 'c09' in self.checks and alg in ('ff', 'ffd', 'bf', 'bfd'):
            inv = [zs[i] + zl[j][0] > Bz for i in range(m) for j in range(i + 1, m)]
            if inv:
                c.check('any-fit-invariant', z3.And(inv), 'a later bin was opened by an item that fitted in an earlier bin: %s' % c.outcome['bins'])
            bad = []
            for opt in range(1, m):
                ok = (10 * m <= 17 * opt) if alg in ('ff', 'bf') else ((9 * m <= 11 * opt + 6) if alg == 'ffd' else (9 * m <= 11 * opt + 36))
                if not ok: bad.append(z3.Not(self.fits(xs, Bz, opt)))
            if bad:
                c.check('bin-count-bound', z3.And(bad), '%d bins used although the optimum violates the documented bound' % m)
        if 'c04' in self.checks and alg == 'bc':
            if m >= 2:
                c.check('not-minimum', z3.Not(self.fits(xs, Bz, m - 1)), 'bin completion used %d bins but %d suffice' % (m, m - 1))
            for other in ('ffd', 'bfd'):
                mo = self.call(c, idx, bi, outputtype=out.BinCount, alg=other)
                if m > mo:
                    c.report('more-than-' + other, 'bin completion %d bins, %s %d bins' % (m, other, mo))
            for ot in (out.Partition, out.Sums, out.BinCount):
                r = self.call(c, idx, bi, outputtype=ot)
                cnt = r if ot is out.BinCount else len(r)
                if cnt != m:
                    c.report('count-depends-on-outputtype', '%s gives %d bins, PartitionAndSumsTuple %d' % (ot.__name__, cnt, m))
        if 'c14' in self.checks and alg in REF:
            self.reference_check(c, idx, bi, xs, zl, zs)

    def reference_check(self, c, idx, bi, xs, zl, zs):
        vals = self.values(c, idx)
        rb = REF[self.alg](list(vals), self.binsize(c, bi))
        rz = [[self.term_value(v) for v in b] for b in rb]
        if self.alg in ('bf', 'bfd'):
            c.check('differs-from-definition', multiset_eq(zs, [zsum(b) for b in rz]),
                    '%s: multiset of bin sums differs from the textbook rule (%d bins vs %d)' % (self.alg, len(zs), len(rz)))
        else:
            c.check('differs-from-definition', bins_equal_as_multisets(zl, rz),
                    '%s: bins differ from the textbook rule (%s vs reference sizes %s)' % (self.alg, c.outcome['bins'], [len(b) for b in rb]))

    def term_value(self, v):
        n, d = zq(v)
        return n * (self.den // d)

    # ------------------------------------------------------------------ covering
    def cover_checks(self, c, xs, Bz, lists, zl, zs, names):
        n = self.n; m = len(lists); alg = self.alg
        valid = []
        if zs: valid.append(z3.And([s >= Bz for s in zs]))
        if not named(self.pres):
            flatz = [t for l in zl for t in l]
            valid.append(sub_multiset(flatz, xs))
        valid.append(zsum(xs) - zsum(zs) < Bz)
        if 'c05' in self.checks:
            if zs:
                c.check('bin-not-covered', valid[0], 'a returned bin has sum below the bin size: %s' % c.outcome['bins'])
            if not named(self.pres):
                c.check('item-used-twice', valid[1] if zs else valid[0], 'output values are not a sub-multiset of the input values')
            c.check('waste-at-least-one-bin', valid[-1], 'the unused items total at least one bin size')
        if 'c10' in self.checks:
            c.check('reports-more-than-opt', z3.And(valid[:-1]) if valid[:-1] else z3.BoolVal(True), 'the returned bins are not a valid cover, so the count may exceed OPT')
            bad = []
            for opt in range(m + 1, n + 1):
                ok = {'cdec': 2 * m >= opt - 1, 'c23': 3 * m >= 2 * (opt - 1), 'c34': 4 * m >= 3 * opt - 16}[alg]
                if not ok and self.groups:
                    # covers(opt+1) implies covers(opt): the smallest optimum that would break the guarantee decides
                    uniq = [xs[sum(self.groups[:g])] for g in range(len(self.groups))]
                    bad.append(z3.Not(covers_grouped(self.groups, uniq, Bz, opt))); break
                if not ok: bad.append(z3.Not(covers(xs, Bz, opt)))
            if bad:
                c.check('approximation-ratio', z3.And(bad), '%s covered %d bins; the optimum is too large for the documented guarantee' % (alg, m))
        if 'c14' in self.checks:
            rb = REF[alg](list(self._vals), self._B)
            rz = [[self.term_value(v) for v in b] for b in rb]
            c.check('differs-from-definition', bins_equal_as_multisets(zl, rz),
                    '%s: bins differ from the textbook rule (%s vs reference sizes %s)' % (alg, c.outcome['bins'], [len(b) for b in rb]))


def make(**params):
    return Pack(**params)


def job(alg, n, mandatory=True, **kw):
    params = dict(alg=alg, n=n, **kw)
    tag = ' '.join('%s=%s' % (a, b) for a, b in sorted(kw.items()) if a not in ('checks',) and b not in (None,))
    j = {'id': '%s n=%d %s' % (alg, n, tag), 'factory': 'harness.pack:make', 'params': params}
    if not mandatory: j['mandatory'] = False
    return j
