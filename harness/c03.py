"""C03 - bin-packing results are feasible packings of exactly the input items."""
from .pack import job


def jobs(tier):
    J = []; ck = ('c03',)
    for alg in ('ff', 'bf'):
        for n in (1, 2, 3, 4, 5):
            J.append(job(alg, n, checks=ck))
        J.append(job(alg, 6, checks=ck, order='desc')); J.append(job(alg, 6, checks=ck, order='asc'))
        J.append(job(alg, 3, checks=ck, pres='list')); J.append(job(alg, 4, checks=ck, pres='list'))
        J.append(job(alg, 3, checks=ck, den=4)); J.append(job(alg, 4, checks=ck, den=4, pres='list'))
    for alg in ('ffd', 'bfd'):
        for n in (1, 2, 3, 4):
            J.append(job(alg, n, checks=ck))
        J.append(job(alg, 5, checks=ck, order='desc')); J.append(job(alg, 6, checks=ck, order='desc'))
        J.append(job(alg, 4, checks=ck, pres='list')); J.append(job(alg, 3, checks=ck, den=4))
    for B in (7, 10, 20):
        for n in (1, 2, 3, 4):
            J.append(job('bc', n, B=B, pres='list', checks=ck))
    for B in (7, 10, 12, 15):
        J.append(job('bc', 5, B=B, pres='list', order='desc', checks=ck)); J.append(job('bc', 6, B=B, pres='list', order='desc', checks=ck))
    J.append(job('bc', 7, B=7, pres='list', order='desc', checks=ck)); J.append(job('bc', 7, B=12, pres='list', order='desc', checks=ck))
    J.append(job('bc', 3, B=100, pres='list', checks=ck)); J.append(job('bc', 8, B=7, pres='list', order='desc', checks=ck))
    for B in (10, 12):
        J.append(job('bc', 8, B=B, pres='list', order='desc', lo=1, checks=ck)); J.append(job('bc', 9, B=B, pres='list', order='desc', lo=1, checks=ck))
    J.append(job('bc', 9, B=7, pres='list', order='desc', lo=1, checks=ck))
    if tier == 'thorough':
        for alg in ('ff', 'bf'):
            J.append(job(alg, 5, checks=ck)); J.append(job(alg, 6, checks=ck, order='desc')); J.append(job(alg, 7, checks=ck, order='desc'))
        for alg in ('ffd', 'bfd'):
            J.append(job(alg, 5, checks=ck)); J.append(job(alg, 6, checks=ck, order='desc'))
        J.append(job('bc', 5, B=20, pres='list', checks=ck)); J.append(job('bc', 6, B=10, pres='list', order='desc', checks=ck))
        J.append(job('bc', 6, B=20, pres='list', order='desc', checks=ck)); J.append(job('bc', 7, B=20, pres='list', order='desc', checks=ck))
    return J


ASSUMPTIONS = ['S1 numpy shim', 'S2 exact arithmetic (fractions with denominator 4 are exact in float64)',
               'bin completion: concrete bin sizes 7, 10, 12, 15, 20, 100 (its bound divides by the bin size, which the encoding keeps linear)']
OUTSIDE = ['more than 7 items for the fit heuristics, more than 9 for bin completion', 'bin completion with other bin sizes',
           'bin completion on named items (known finding, see C07)']
