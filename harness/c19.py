"""C19 - unsatisfiable or malformed requests are refused with an error, never answered."""
import z3
from .common import *   # noqa: F401,F403
from .common import prtpy, out, prt, pack_alg, item_vars, numbers, present, zsum, NAMES

OUTS = {'tuple': out.PartitionAndSumsTuple, 'partition': out.Partition, 'sums': out.Sums, 'bincount': out.BinCount,
        'largest': out.LargestSum, 'sorted': out.SortedSums}


class Oversize:
    """packing with at least one item larger than the bin size, at any position and with any multiplicity"""
    def __init__(self, alg, n, pres='nv', ot='tuple', B=None, prime=False):
        self.alg = alg; self.n = n; self.pres = pres; self.ot = ot; self.B = B; self.prime = prime

    def setup(self, c):
        idx = item_vars(c, self.n, 0, 'any')
        bi = c.newvar('B')
        xs = [c.zvars[i] for i in idx]; Bz = c.zvars[bi]
        c.assume(Bz > 0)
        if self.B is not None: c.assume(Bz == self.B)
        c.assume(z3.Or([x > Bz for x in xs]))
        c.ns['x'] = xs; c.ns['B'] = Bz
        return (idx, bi)

    def fn(self, c, idx, bi):
        items, valueof = present(self.pres, numbers(c, idx))
        B = self.B if self.B is not None else c.num(bi)
        if self.prime:
            # history: a satisfiable request with the same items and a bin size that is large enough comes first
            vals = numbers(c, idx)
            big = (sum(vals, 0) + B) if self.alg != 'bc' else B * 3      # bin completion divides by the bin size: a concrete one
            try:
                prtpy.pack(pack_alg(self.alg), big, items, valueof=valueof, outputtype=OUTS[self.ot])
            except ValueError:
                if self.alg != 'bc':
                    c.report('exception', 'the satisfiable priming request was refused'); return
            except Exception as e:
                c.report('exception', 'the satisfiable priming request raised %s: %s' % (type(e).__name__, e)); return
        try:
            r = prtpy.pack(pack_alg(self.alg), B, items, valueof=valueof, outputtype=OUTS[self.ot])
        except ValueError:
            c.outcome = {'raised': 'ValueError'}; return
        except Exception as e:
            c.outcome = {'raised': type(e).__name__}
            c.report('wrong-exception', 'an oversize item raised %s instead of ValueError: %s' % (type(e).__name__, e)); return
        c.outcome = {'returned': True}
        c.report('oversize-item-accepted', '%s returned %s for an input with an item larger than the bin size' % (self.alg, str(r)[:80]))


class Cbldm:
    """CBLDM with exactly one invalid argument"""
    def __init__(self, what, n=3, pres='nv'):
        self.what = what; self.n = n; self.pres = pres

    def setup(self, c):
        lo = None
        idx = item_vars(c, self.n, -5 if self.what == 'negative' else 0, 'any')
        xs = [c.zvars[i] for i in idx]
        p = c.newvar('p')
        if self.what == 'negative':
            c.assume(z3.Or([x < 0 for x in xs]))
        elif self.what == 'numbins':
            c.assume(c.zvars[p] != 2); c.assume(c.zvars[p] >= -3); c.assume(c.zvars[p] <= 6)
        elif self.what == 'time_limit':
            c.assume(c.zvars[p] <= 0)
        elif self.what == 'partition_difference':
            c.assume(c.zvars[p] < 1)
        c.ns['x'] = xs
        return (idx, p)

    def fn(self, c, idx, p):
        items, valueof = present(self.pres, numbers(c, idx))
        kw = {}; numbins = 2
        pv = c.num(p)
        if self.what == 'numbins':
            # numbins is a structural parameter: enumerate its values through the solver variable
            numbins = c.pick(10, 'numbins') - 3
            if numbins == 2:
                return
        elif self.what == 'time_limit':
            kw['time_limit'] = pv
        elif self.what == 'partition_difference':
            kw['partition_difference'] = c.pick(8, 'pd') - 7      # -7 .. 0
        elif self.what == 'pd_noninteger':
            kw['partition_difference'] = (1.5, 2.0, '2', None, 2.5)[c.pick(5, 'pdk')]
        try:
            r = prtpy.partition(prt.cbldm, numbins, items, valueof=valueof, outputtype=out.PartitionAndSumsTuple, **kw)
        except ValueError:
            c.outcome = {'raised': 'ValueError'}; return
        except Exception as e:
            c.outcome = {'raised': type(e).__name__}
            if self.what == 'pd_noninteger' and isinstance(e, TypeError):
                return      # comparing None or a string with 1 raises TypeError before the check: still refused with an error
            c.report('wrong-exception', 'invalid %s raised %s instead of ValueError: %s' % (self.what, type(e).__name__, e)); return
        c.outcome = {'returned': True}
        c.report('invalid-argument-accepted', 'cbldm answered %s for an invalid %s (%s)' % (str(r)[:80], self.what, kw or numbins))


class NumItems:
    def __init__(self): pass
    def setup(self, c):
        return (item_vars(c, 2, 0, 'any'),)
    def fn(self, c, idx):
        b = prtpy.BinnerKeepingSums()
        bins = b.new_bins(2)
        v = numbers(c, idx)
        b.add_item_to_bin(bins, v[0], 0); b.add_item_to_bin(bins, v[1], 1)
        for i in (0, 1):
            try:
                r = b.numitems(bins, i)
            except NotImplementedError:
                continue
            except Exception as e:
                c.report('wrong-exception', 'numitems raised %s' % type(e).__name__); continue
            c.report('numitems-invented', 'the sums-only manager reported %r items' % (r,))
        c.outcome = {'raised': 'NotImplementedError'}


def make(kind, **params):
    return {'oversize': Oversize, 'cbldm': Cbldm, 'numitems': NumItems}[kind](**params)


def job(kind, mandatory=True, **params):
    tag = ' '.join('%s=%s' % (a, b) for a, b in sorted(params.items()))
    return {'id': '%s %s' % (kind, tag), 'factory': 'harness.c19:make', 'params': dict(kind=kind, **params)}


def jobs(tier):
    J = []
    for alg in ('ff', 'ffd', 'bf', 'bfd'):
        for n in (1, 2, 3, 4, 5):
            J.append(job('oversize', alg=alg, n=n))
        for pres in ('list', 'dict'):
            J.append(job('oversize', alg=alg, n=3, pres=pres))
        for ot in ('partition', 'sums', 'bincount', 'largest'):
            J.append(job('oversize', alg=alg, n=3, ot=ot))
        J.append(job('oversize', alg=alg, n=2, prime=True)); J.append(job('oversize', alg=alg, n=3, prime=True, pres='list'))
    for B in (7, 10):
        for n in (1, 2, 3, 4):
            J.append(job('oversize', alg='bc', n=n, B=B, pres='list'))
        for pres in ('nv', 'dict'):
            J.append(job('oversize', alg='bc', n=3, B=B, pres=pres))
        for ot in ('partition', 'sums', 'bincount'):
            J.append(job('oversize', alg='bc', n=3, B=B, pres='list', ot=ot))
        J.append(job('oversize', alg='bc', n=3, B=B, pres='list', prime=True))
    for what in ('numbins', 'negative', 'time_limit', 'partition_difference', 'pd_noninteger'):
        J.append(job('cbldm', what=what)); J.append(job('cbldm', what=what, pres='list', n=2))
    J.append(job('cbldm', what='negative', n=4))
    for what in ('numbins', 'negative', 'time_limit', 'partition_difference'):
        J.append(job('cbldm', what=what, n=1)); J.append(job('cbldm', what=what, n=1, pres='dict'))
    J.append(job('numitems'))
    if tier == 'thorough':
        for alg in ('ff', 'ffd', 'bf', 'bfd'):
            J.append(job('oversize', alg=alg, n=5)); J.append(job('oversize', alg=alg, n=6))
        J.append(job('oversize', alg='bc', n=5, B=10, pres='list')); J.append(job('oversize', alg='bc', n=6, B=10, pres='list'))
    return J


ASSUMPTIONS = ['S1 numpy shim', 'an oversize item is an item with value > binsize (binsize symbolic > 0 for the fit heuristics, 7 and 10 for bin completion)']
OUTSIDE = ['more than 4 (quick) / 6 (thorough) items', 'CBLDM calls with more than one invalid argument']
