"""Several calls of the public entry points on ONE symbolic path (the later calls follow decisions already taken):
C06 output types, C07 presentations, C15 purity / repeatability / history independence, C18 symmetries."""
import os
import itertools
import z3
from .common import *   # noqa: F401,F403
from .common import (CONCRETE, prtpy, out, part_alg, pack_alg, objective, cg_kwargs, item_vars, numbers, present, named, names_of, restore_state,
                     zsum, zmax, zmin, zi, zq, multiset_eq, sub_multiset, objective_z, describe, NAMES, SymNum, npshim)
from .part import alg_kwargs, install_stubs

PART = ('greedy', 'roundrobin', 'multifit', 'kk', 'cg', 'ckk', 'snp', 'rnp', 'dp', 'ilp', 'cbldm')
PACKERS = ('ff', 'ffd', 'bf', 'bfd', 'bc')
COVERS = ('cdec', 'c23', 'c34')
EXACT_OBJ = {'cg': None, 'ckk': 'diff', 'snp': 'diff', 'rnp': 'diff', 'dp': None, 'ilp': None, 'cbldm': 'diff'}
SORTING = ('greedy', 'roundrobin', 'multifit', 'kk', 'ffd', 'bfd', 'cdec', 'c23', 'c34')     # algorithms that sort their input


class Multi:
    def __init__(self, what, alg, n, size=None, obj=None, order='any', iterations=None, cg_mask=None, pres='nv', other=None, lo=None, m=0, groups=None):
        self.groups = groups
        self.m = m            # C15: a second, independent request of m items to the same algorithm with the same size
        self.what = what; self.alg = alg; self.n = n; self.size = size; self.obj = obj; self.order = order
        self.family = 'part' if alg in PART else ('pack' if alg in PACKERS else 'cover')
        self.kw = alg_kwargs(alg, obj, cg_mask, iterations) if self.family == 'part' else {}
        self.pres = pres; self.other = other
        self.lo = lo if lo is not None else (1 if self.family == 'cover' else 0)
        self.symbolic_B = self.family != 'part' and (size is None)

    # ------------------------------------------------------------------ plumbing
    def setup(self, c):
        idx = item_vars(c, self.n, self.lo, self.order, groups=self.groups)
        xs = [c.zvars[i] for i in idx]
        bi = c.newvar('B')
        if self.family != 'part':
            c.assume(c.zvars[bi] > 0)
            if self.size is not None: c.assume(c.zvars[bi] == self.size)
            if self.family == 'pack':
                for x in xs: c.assume(x <= c.zvars[bi])
        c.ns['x'] = xs; c.ns['B'] = c.zvars[bi]
        if self.m:
            self.yidx = item_vars(c, self.m, self.lo, self.order, prefix='y')
            if self.family == 'pack':
                for j in self.yidx: c.assume(c.zvars[j] <= c.zvars[bi])
        return (idx, bi)

    def sz(self, c, bi, scale=1):
        if self.family == 'part': return self.size
        b = self.size if self.size is not None else c.num(bi)
        return b * scale

    def call(self, c, bi, items, valueof=None, ot=out.PartitionAndSumsTuple, scale=1, alg=None, kw=None):
        alg = alg or self.alg
        fam = 'part' if alg in PART else 'pack'
        if fam == 'part':
            install_stubs(alg)
            return prtpy.partition(part_alg(alg), self.size if alg == self.alg else 2, items, valueof=valueof, outputtype=ot, **(self.kw if kw is None else kw))
        return prtpy.pack(pack_alg(alg), self.sz(c, bi, scale), items, valueof=valueof, outputtype=ot)

    def objname(self):
        return self.obj or EXACT_OBJ.get(self.alg)

    def exact(self):
        return self.alg in EXACT_OBJ or self.alg == 'bc'

    def fn(self, c, idx, bi):
        xs = [c.zvars[i] for i in idx]
        vals = numbers(c, idx)
        try:
            getattr(self, self.what)(c, idx, bi, xs, vals)
        except Exception as e:
            c.report('exception', '%s: %s' % (type(e).__name__, e)); c.outcome = {'raised': type(e).__name__}

    # ------------------------------------------------------------------ C06
    def c06(self, c, idx, bi, xs, vals):
        names = list(NAMES[:self.n]); d = dict(zip(names, vals)); zx = dict(zip(names, xs))
        if self.pres == 'list':
            call = lambda ot: self.call(c, bi, list(vals), None, ot)
        else:
            call = lambda ot: self.call(c, bi, names, d.__getitem__, ot)
        sums, lists = call(out.PartitionAndSumsTuple)
        lists = [list(l) for l in lists]
        if self.pres == 'list':
            c.outcome = {'bins': [len(l) for l in lists]}
            zx = _ValueTerms()
        else:
            c.outcome = {'bins': describe(lists)}
            if any(x not in names for l in lists for x in l):
                c.report('sum-differs-from-contents', 'bins contain something that is not an input item: %s' % lists); return
        zs = [zsum(zx[a] for a in l) for l in lists]
        m = len(lists)
        if len(sums) != m:
            c.report('sum-differs-from-contents', '%d sums for %d bins' % (len(sums), m)); return
        if m:
            c.check('sum-differs-from-contents', z3.And([zi(sums[i]) == zs[i] for i in range(m)]), 'a reported bin sum is not the total value of the items reported in that bin')
        # strict reading (identical sums vectors also for exact algorithms with three or more bins): on by default in the thorough tier
        strict = not self.exact() or os.environ.get('VERIF_C06_STRICT', '1' if os.environ.get('VERIF_TIER') == 'thorough' else '0') == '1'
        on = self.objname()
        def same_sums(got, kind):
            got = [zi(v) for v in got]
            if len(got) != m:
                c.report(kind, '%d sums reported, the partition output has %d bins' % (len(got), m)); return
            if strict or m <= 2 and self.family == 'part':
                c.check(kind, multiset_eq(got, zs), 'the sums-only output differs from the sums of the partition output')
            elif on and m:
                c.check(kind, objective_z(on, got) == objective_z(on, zs), 'the sums-only output has a different objective value than the partition output')
        r = call(out.Sums); same_sums(r, 'sums-output-differs')
        r = call(out.SortedSums); same_sums(r, 'sortedsums-output-differs')
        zr = [zi(v) for v in r]
        if len(zr) > 1:
            c.check('sortedsums-not-sorted', z3.And([zr[i] <= zr[i + 1] for i in range(len(zr) - 1)]), 'SortedSums is not sorted')
        cnt = call(out.BinCount)
        if cnt != m:
            c.report('bincount-output-differs', 'BinCount %s, partition output has %d bins' % (cnt, m))
        if m:
            big = zi(call(out.LargestSum)); small = zi(call(out.SmallestSum))
            ext = call(out.ExtremeSums); diff = zi(call(out.Difference))
            if strict or (m <= 2 and self.family == 'part'):
                c.check('largest-output-differs', big == zmax(zs), 'LargestSum differs from the largest sum of the partition output')
                c.check('smallest-output-differs', small == zmin(zs), 'SmallestSum differs from the smallest sum of the partition output')
                c.check('extremes-output-differ', z3.And(zi(ext[0]) == zmin(zs), zi(ext[1]) == zmax(zs)), 'ExtremeSums differs from the partition output')
                c.check('difference-output-differs', diff == zmax(zs) - zmin(zs), 'Difference differs from the partition output')
            else:
                if on == 'max': c.check('largest-output-differs', big == zmax(zs), 'LargestSum differs from the largest sum of the partition output')
                if on == 'min': c.check('smallest-output-differs', small == zmin(zs), 'SmallestSum differs from the smallest sum of the partition output')
                if on == 'diff': c.check('difference-output-differs', diff == zmax(zs) - zmin(zs), 'Difference differs from the partition output')
                c.check('extremes-output-differ', zi(ext[1]) - zi(ext[0]) == diff, 'ExtremeSums and Difference of the same call disagree')
        p = call(out.Partition)
        if self.pres == 'list':
            if len(p) != m: c.report('partition-output-differs', 'Partition has %d bins, PartitionAndSumsTuple %d' % (len(p), m))
            return
        if strict and sorted(map(sorted, p)) != sorted(map(sorted, lists)):
            c.report('partition-output-differs', 'Partition %s, PartitionAndSumsTuple %s' % (p, lists))
        ps = call(out.PartitionAndSums)
        if len(ps.sums) != len(ps.lists) or (strict and sorted(map(sorted, ps.lists)) != sorted(map(sorted, lists))):
            c.report('partitionandsums-output-differs', 'PartitionAndSums %s' % (ps.lists,))
        elif len(ps.sums):
            c.check('sum-differs-from-contents', z3.And([zi(ps.sums[i]) == zsum(zx[a] for a in ps.lists[i]) for i in range(len(ps.sums))]), 'PartitionAndSums: a sum is not the total of its bin')

    # ------------------------------------------------------------------ C07
    def c07(self, c, idx, bi, xs, vals):
        n = self.n
        res = {}
        base = self.call(c, bi, list(vals))
        lsums = [zi(v) for v in base[0]]
        c.outcome = {'list_bins': [len(l) for l in base[1]]}
        flat = [zi(v) for l in base[1] for v in l]
        for press in ('arr', 'dict', 'nv', 'intnames', 'intdict', 'falsynames', 'falsydict'):
            items, valueof = present(press, vals)
            try:
                s2, l2 = self.call(c, bi, items, valueof)
            except Exception as e:
                c.report('presentation-raises', 'presentation %s raised %s: %s (the plain list works)' % (press, type(e).__name__, e)); continue
            l2 = [list(l) for l in l2]
            if named(press):
                nm = names_of(press, n); zmap = dict(zip(nm, xs))
                fl = [x for l in l2 for x in l]
                if len(set(fl)) != len(fl) or any(x not in zmap for x in fl):
                    c.report('named-result-not-a-partition', 'presentation %s: bins %s' % (press, l2)); continue
                if self.family != 'cover' and self.alg != 'bc' and sorted(fl, key=repr) != sorted(nm, key=repr):
                    c.report('named-result-not-a-partition', 'presentation %s: bins %s do not hold every name once' % (press, l2)); continue
                z2 = [zsum(zmap[a] for a in l) for l in l2]
                if len(z2) != len(s2):
                    c.report('named-sums-wrong', 'presentation %s: %d sums for %d bins' % (press, len(s2), len(z2))); continue
                if z2:
                    c.check('named-sums-wrong', z3.And([zi(s2[i]) == z2[i] for i in range(len(z2))]), 'presentation %s: the values of the named bins do not reproduce the reported sums' % press)
                if self.alg == 'bc':
                    missing = [a for a in nm if a not in fl]
                    if missing:
                        c.check('named-result-not-a-partition', z3.And([zmap[a] == 0 for a in missing]), 'presentation %s: omitted items %s are not zero-valued' % (press, missing))
            else:
                z2 = [zi(v) for v in s2]
            self.compare_sums(c, lsums, z2, 'sums-depend-on-presentation', 'presentation %s gives a different multiset of bin sums than the plain list' % press)

    def compare_sums(self, c, a, b, kind, msg):
        on = self.objname()
        if len(a) != len(b):
            c.report(kind, msg + ' (%d vs %d bins)' % (len(a), len(b))); return
        if not a: return
        if not self.exact() or self.alg == 'bc' or (len(a) <= 2 and self.family == 'part'):
            if self.alg == 'bc':
                return      # any optimal packing is acceptable: only the count is compared
            c.check(kind, multiset_eq(a, b), msg)
        elif on:
            c.check(kind, objective_z(on, a) == objective_z(on, b), msg + ' (objective value)')

    # ------------------------------------------------------------------ C15
    def c15(self, c, idx, bi, xs, vals):
        restore_state()
        try:
            self.c15_body(c, idx, bi, xs, vals)
        finally:
            restore_state()

    def variant(self, c, bi, items, which):
        """the same algorithm on a related request: another bin size / bin count, or the items in another order with one more item;
        which == 2: an independent request (other symbolic items) with the same size"""
        try:
            if which == 2:
                return self.call(c, bi, numbers(c, self.yidx))
            if self.family == 'part':
                if which == 0:
                    if self.alg == 'cbldm':
                        return prtpy.partition(part_alg(self.alg), 2, list(reversed(items)) + [3], outputtype=out.PartitionAndSumsTuple, **self.kw)
                    return prtpy.partition(part_alg(self.alg), self.size + 1, items, outputtype=out.PartitionAndSumsTuple, **self.kw)
                return prtpy.partition(part_alg(self.alg), self.size, list(reversed(items)) + [3], outputtype=out.PartitionAndSumsTuple, **self.kw)
            b = self.sz(c, bi)
            b2 = (b + 3) if which == 0 else (b * 2)
            return prtpy.pack(pack_alg(self.alg), b2, items, outputtype=out.PartitionAndSumsTuple)
        except ValueError:
            return None

    def same_result(self, c, r1, r2, kind, msg):
        if (r1 is None) != (r2 is None):
            c.report(kind, msg + ' (one of the two calls raised)'); return False
        if r1 is None:
            return True
        if [len(a) for a in r1[1]] != [len(a) for a in r2[1]]:
            c.report(kind, msg + ': bin sizes %s vs %s' % ([len(a) for a in r1[1]], [len(a) for a in r2[1]])); return False
        conj = [zi(a) == zi(b) for la, lb in zip(r1[1], r2[1]) for a, b in zip(la, lb)] + [zi(a) == zi(b) for a, b in zip(r1[0], r2[0])]
        return c.check(kind, z3.And(conj), msg) if conj else True

    def c15_body(self, c, idx, bi, xs, vals):
        n = self.n
        # ---- histories of the SAME algorithm on related requests, each result compared with the same call in a fresh state
        items0 = list(vals)
        fresh_main = self.call(c, bi, list(items0))
        for which in ((2,) if self.m else (0, 1)):
            restore_state()
            fresh_var = self.variant(c, bi, list(items0), which)
            restore_state()
            self.call(c, bi, list(items0))                       # history: the main request first ...
            after_var = self.variant(c, bi, list(items0), which)  # ... then the related one
            if not self.same_result(c, fresh_var, after_var, 'depends-on-history', 'a related request to the same algorithm gives another answer after the main request than in a fresh state'):
                return
            restore_state()
            self.variant(c, bi, list(items0), which)             # history: the related request first ...
            after_main = self.call(c, bi, list(items0))          # ... then the main one
            if not self.same_result(c, fresh_main, after_main, 'depends-on-history', 'the request gives another answer after a related request to the same algorithm than in a fresh state'):
                return
        restore_state()
        names = list(NAMES[:n])
        items = list(vals); snap = list(items)
        d = dict(zip(names, vals)); dsnap = list(d.items())
        arr = present('arr', vals)[0]; asnap = list(arr)
        r1 = self.call(c, bi, items)
        if len(items) != len(snap) or any(a is not b for a, b in zip(items, snap)):
            c.report('argument-modified', 'the list argument was changed by the call'); return
        if self.alg == 'bc':
            d = list(vals)           # bin completion computes with the items themselves (known finding KF-BC-NAMES): value lists only
        r1d = self.call(c, bi, d)
        if self.alg == 'bc':
            pass
        elif [k for k, _ in d.items()] != [k for k, _ in dsnap] or any(a[1] is not b[1] for a, b in zip(d.items(), dsnap)):
            c.report('argument-modified', 'the dict argument was changed by the call'); return
        r1a = self.call(c, bi, arr)
        now = list(arr)
        if len(now) != len(asnap):
            c.report('argument-modified', 'the array argument changed length'); return
        c.check('argument-modified', z3.And([zi(a) == zi(b) for a, b in zip(now, asnap)]), 'the array argument was changed by the call')
        c.outcome = {'bins': describe([list(l) for l in r1d[1]]) if self.alg != 'bc' else [len(l) for l in r1d[1]]}
        # immediate repetition
        r2d = self.call(c, bi, d)
        if self.alg == 'bc':
            same = lambda a, b: [len(l) for l in a] == [len(l) for l in b]
        else:
            same = lambda a, b: [list(l) for l in a] == [list(l) for l in b]
        if not same(r1d[1], r2d[1]):
            c.report('not-repeatable', 'two identical calls returned %s and %s' % (r1d[1], r2d[1])); return
        # other calls in between: another algorithm on another input, and a call that fails
        other = self.other or ('kk' if self.alg != 'kk' else 'greedy')
        try:
            self.call(c, bi, [vals[0], vals[-1], 5, 0], alg=other, kw={} if other not in ('cg', 'dp') else {'objective': objective('max')})
        except Exception:
            pass
        try:
            prtpy.pack(pack_alg('ff'), 3, [vals[0] + 4], outputtype=out.Sums)          # oversize: raises
        except ValueError:
            pass
        try:
            prtpy.partition(part_alg('cbldm'), 3, [1, 2], outputtype=out.Sums)         # numbins != 2: raises
        except ValueError:
            pass
        r3d = self.call(c, bi, d)
        if not same(r1d[1], r3d[1]):
            c.report('depends-on-history', 'the same call returned %s before and %s after other calls' % (r1d[1], r3d[1])); return
        r3 = self.call(c, bi, items)
        if [len(a) for a in r1[1]] != [len(a) for a in r3[1]]:
            c.report('depends-on-history', 'list input: bin sizes %s before, %s after other calls' % ([len(a) for a in r1[1]], [len(a) for a in r3[1]])); return
        conj = [zi(a) == zi(b) for la, lb in zip(r1[1], r3[1]) for a, b in zip(la, lb)] + [zi(a) == zi(b) for a, b in zip(r1[0], r3[0])] \
            + [zi(a) == zi(b) for a, b in zip(r1d[0], r3d[0])]
        if conj:
            c.check('depends-on-history', z3.And(conj), 'the same call returned different values after other calls were made')

    # ------------------------------------------------------------------ C18
    def c18(self, c, idx, bi, xs, vals):
        n = self.n
        names = list(NAMES[:n]); d = dict(zip(names, vals)); zx = dict(zip(names, xs))
        def sums_of(r): return [zsum(zx[a] for a in l) for l in r[1]]
        base = sums_of(self.call(c, bi, names, d.__getitem__))
        c.outcome = {'bins': len(base)}
        on = self.objname()
        def same(a, b, kind, msg):
            if len(a) != len(b):
                if self.alg == 'multifit' or self.family != 'part':
                    if self.alg in SORTING or self.alg == 'bc':
                        c.report(kind, msg + ' (%d vs %d bins)' % (len(a), len(b)))
                    return
                c.report(kind, msg + ' (%d vs %d bins)' % (len(a), len(b))); return
            if not a: return
            if self.alg == 'bc': return
            if self.exact() and not (len(a) <= 2 and self.family == 'part'):
                c.check(kind, objective_z(on, a) == objective_z(on, b), msg + ' (optimal value)')
            else:
                c.check(kind, multiset_eq(a, b), msg)
        if self.alg in SORTING or self.exact():
            perms = list(itertools.permutations(names))[1:] if n <= 3 else [list(reversed(names)), names[1:] + names[:1], names[:2][::-1] + names[2:]]
            for p in perms:
                same(base, sums_of(self.call(c, bi, list(p), d.__getitem__)), 'depends-on-input-order', 'reordering the input changed the result')
        factors = (2, 1024) if self.alg == 'multifit' else (3, 10)
        for f in factors:
            d2 = {a: v * f for a, v in d.items()}
            r2 = self.call(c, bi, names, d2.__getitem__, scale=f)
            s2 = sums_of(r2)                        # unscaled sums of the scaled run's bins
            same(base, s2, 'not-scale-invariant', 'multiplying all values by %d changed the bins' % f)
            if len(s2):
                c.check('not-scale-invariant', z3.And([zi(r2[0][i]) == f * s2[i] for i in range(len(s2))]), 'the sums of the scaled input are not %d times the sums' % f)
        if self.exact() and self.family == 'part':
            for extra in (1, 2):
                nm2 = names + ['z%d' % i for i in range(extra)]
                d3 = dict(d); d3.update({'z%d' % i: 0 for i in range(extra)})
                r3 = self.call(c, bi, nm2, d3.__getitem__)
                z3x = dict(zx); z3x.update({'z%d' % i: z3.IntVal(0) for i in range(extra)})
                s3 = [zsum(z3x[a] for a in l) for l in r3[1]]
                if len(s3) == len(base) and base:
                    c.check('zeros-change-optimum', objective_z(on, s3) == objective_z(on, base), 'adding %d zero-valued item(s) changed the optimal value' % extra)
                else:
                    c.report('zeros-change-optimum', 'adding zeros changed the number of bins')


class _ValueTerms:
    """item -> term when the items are the values themselves"""
    def __getitem__(self, it): return zi(it)
    def __contains__(self, it): return True


class Agree:
    """C18, last clause: all exact algorithms report the same optimal value for the same objective on the same input,
    never worse than any heuristic's - without an oracle, so it also runs on tier-B vectors beyond the oracle's size"""
    def __init__(self, n, k, obj='diff', order='any', fixed=None, algs=None, heur=None, groups=None):
        self.groups = groups
        self.n = n; self.k = k; self.obj = obj; self.order = order
        self.fixed = {int(a): b for a, b in (fixed or {}).items()}
        self.algs = algs; self.heur = heur

    def setup(self, c):
        idx = item_vars(c, self.n, 0, self.order, fixed=self.fixed, groups=self.groups)
        c.ns['x'] = [c.zvars[i] for i in idx]
        return (idx,)

    def fn(self, c, idx):
        n, k, on = self.n, self.k, self.obj
        xs = [c.zvars[i] for i in idx]
        names = list(NAMES[:n]); vals = dict(zip(names, numbers(c, idx, self.fixed))); zx = dict(zip(names, xs))
        exact = [a for a in (self.algs or (['ckk', 'snp', 'rnp', 'cg', 'dp'] if on == 'diff' else ['cg', 'dp'])) if not (a == 'cbldm' and k != 2)]
        heur = list(self.heur) if self.heur is not None else ['greedy', 'kk', 'roundrobin', 'multifit']
        res = {}
        for a in exact + heur:
            kw = alg_kwargs(a, on if a in ('cg', 'dp') else None, None, 2 if a == 'multifit' else None)
            try:
                r = prtpy.partition(part_alg(a), k, names, valueof=vals.__getitem__, outputtype=out.PartitionAndSumsTuple, **kw)
            except Exception as e:
                c.report('exception', '%s raised %s: %s' % (a, type(e).__name__, e)); return
            zs = [zsum(zx[t] for t in l) for l in r[1]]
            zs = zs + [z3.IntVal(0)] * (k - len(zs))
            res[a] = objective_z(on, zs)
        c.outcome = {'algorithms': exact + heur}
        first = exact[0]
        c.check('exact-solvers-disagree', z3.And([res[a] == res[first] for a in exact[1:]]) if len(exact) > 1 else z3.BoolVal(True),
                'exact algorithms %s report different optimal %s values' % (exact, on))
        if heur:
            c.check('heuristic-better-than-exact', z3.And([res[first] <= res[h] for h in heur]), 'a heuristic returned a better %s value than the exact algorithms' % on)


def make(what=None, **params):
    if what == 'agree':
        return Agree(**params)
    return Multi(what=what, **params)


def agree_job(n, k, mandatory=True, vector=None, holes=None, **kw):
    params = dict(what='agree', n=n, k=k, **kw)
    jid = 'agree (%d,%d) %s' % (n, k, ' '.join('%s=%s' % (a, ','.join(map(str, b)) if isinstance(b, list) else b) for a, b in sorted(kw.items())))
    if vector is not None:
        items = vector['items']
        params['fixed'] = {str(i): v for i, v in enumerate(items) if i not in holes}
        params['n'] = len(items)
        jid = 'tierB agree %s k=%d holes=%s %s %s' % (vector['name'], k, list(holes), kw.get('obj', 'diff'), ','.join(kw.get('algs') or ['all']))
    j = {'id': jid, 'factory': 'harness.multi:make', 'params': params, 'loose': True}
    if not mandatory: j['mandatory'] = False
    return j


def job(what, alg, n, mandatory=True, **kw):
    tag = ' '.join('%s=%s' % (a, b) for a, b in sorted(kw.items()) if b is not None)
    j = {'id': '%s %s n=%d %s' % (what, alg, n, tag), 'factory': 'harness.multi:make', 'params': dict(what=what, alg=alg, n=n, **kw)}
    if alg in ('dp', 'ilp'):
        j['loose'] = True
    if not mandatory: j['mandatory'] = False
    return j
