"""Shared vocabulary of the property harnesses: inputs, presentations, oracles (DESIGN.md section 3).

The same harness code runs in two modes:
  symbolic  - inputs are SymNum over solver variables, prtpy's numpy is the shim, obligations go to z3;
  concrete  - inputs are Python ints taken from a model, prtpy runs on the real numpy (and real CBC),
              obligations are evaluated (replay of counterexamples and validation of sampled paths).
The oracles below never call prtpy.
"""
import os, sys, itertools, math
from fractions import Fraction
import z3

CONCRETE = os.environ.get('PATHSYM_MODE') == 'concrete'

sys.path.insert(0, os.environ.get('PRTPY_REPO', '/repo'))
import prtpy  # noqa: E402
from pathsym.engine import SymNum, zq, zi, zeq, zle, Unsupported, PathAbort  # noqa: E402
from pathsym import npshim  # noqa: E402

if not CONCRETE:
    npshim.install()

import logging  # noqa: E402
logging.disable(logging.CRITICAL)      # stub S4: no formatting of symbolic values

prt = prtpy.partitioning
out = prtpy.out
O = prtpy.obj


# ---------------------------------------------------------------- interpreter state of the library (C15)

import copy as _copy, types as _types   # noqa: E402


def _state_cells():
    """every place where the library could keep state between calls: mutable containers at module level, class attributes
    and default arguments of its functions"""
    cells = []
    for mname, m in list(sys.modules.items()):
        if not (mname == 'prtpy' or mname.startswith('prtpy.')) or m is None:
            continue
        for name, val in list(vars(m).items()):
            if name.startswith('__'):
                continue
            if isinstance(val, (dict, list, set)):
                cells.append((m, name, val))
            elif isinstance(val, type) and getattr(val, '__module__', None) == mname:
                for an, av in list(vars(val).items()):
                    if not an.startswith('__') and isinstance(av, (dict, list, set)):
                        cells.append((val, an, av))
            elif isinstance(val, _types.FunctionType) and val.__module__ == mname and val.__defaults__:
                for i, d in enumerate(val.__defaults__):
                    if isinstance(d, (dict, list, set)):
                        cells.append((val, '__defaults__[%d]' % i, d))
    return cells


_BASELINE = None


def snapshot_state():
    global _BASELINE
    _BASELINE = {(id(owner), name): (obj, _copy.copy(obj)) for owner, name, obj in _state_cells()}


def restore_state():
    """put the library back into the state it had when it was imported (a 'fresh interpreter' as far as prtpy is concerned)"""
    for owner, name, obj in _state_cells():
        base = _BASELINE.get((id(owner), name))
        if base is not None and base[0] is obj:
            saved = base[1]
            if isinstance(obj, list): obj[:] = saved
            else:
                obj.clear(); obj.update(saved)
        else:
            obj.clear()          # a container that did not exist (or was another object) at import time


snapshot_state()


def mod(name):
    return sys.modules[name]


# ---------------------------------------------------------------- algorithms

def part_alg(name):
    return {'greedy': prt.greedy, 'roundrobin': prt.roundrobin, 'multifit': prt.multifit, 'kk': prt.kk,
            'cg': prt.complete_greedy, 'ckk': prt.ckk, 'snp': prt.snp, 'rnp': prt.rnp, 'dp': prt.dp,
            'ilp': prt.ilp, 'cbldm': prt.cbldm}[name]


def pack_alg(name):
    from prtpy.packing import first_fit, best_fit, bin_completion, greedy_covering, cflz_covering
    return {'ff': first_fit.online, 'ffd': first_fit.decreasing, 'bf': best_fit.online, 'bfd': best_fit.decreasing,
            'bc': bin_completion.bin_completion,
            'cdec': greedy_covering.decreasing, 'c23': cflz_covering.twothirds, 'c34': cflz_covering.threequarters}[name]


def objective(name):
    """objective name -> prtpy objective object.  names: diff max min klargest:K ksmallest:K"""
    if name == 'diff': return O.MinimizeDifference
    if name == 'max': return O.MinimizeLargestSum
    if name == 'min': return O.MaximizeSmallestSum
    if name.startswith('klargest:'): return O.MinimizeKLargestSums(int(name.split(':')[1]))
    if name.startswith('ksmallest:'): return O.MaximizeKSmallestSums(int(name.split(':')[1]))
    raise KeyError(name)


CG_SWITCHES = ('use_lower_bound', 'use_fast_lower_bound', 'use_heuristic_3', 'use_set_of_seen_states')


def cg_kwargs(mask):
    return {s: bool(mask >> i & 1) for i, s in enumerate(CG_SWITCHES)}


# ---------------------------------------------------------------- inputs

NAMES = 'abcdefghijklmnopqrstuvwxyz'


def item_vars(c, n, lo=0, order='any', prefix='x', fixed=None, groups=None):
    """n integer variables >= lo; order in any/desc/asc.  fixed: {position: int} concrete positions (tier B).
    groups: multiplicities, e.g. [3,2,2] = 7 items of which the first three share ONE variable, the next two another ...
    (tier C: inputs with repeated values; order then refers to the group values)."""
    idx = []
    if groups:
        assert sum(groups) == n
        for g, m in enumerate(groups):
            j = c.newvar('%s%d' % (prefix, g))
            c.assume(c.zvars[j] >= lo)
            idx += [j] * m
        uniq = [idx[sum(groups[:g])] for g in range(len(groups))]
        if order == 'desc':
            for a, b in zip(uniq, uniq[1:]): c.assume(c.zvars[a] >= c.zvars[b])
        elif order == 'asc':
            for a, b in zip(uniq, uniq[1:]): c.assume(c.zvars[a] <= c.zvars[b])
        return idx
    for i in range(n):
        j = c.newvar('%s%d' % (prefix, i))
        idx.append(j)
        c.assume(c.zvars[j] >= lo)
        if fixed and i in fixed:
            c.assume(c.zvars[j] == int(fixed[i]))
    if order == 'desc':
        for a, b in zip(idx, idx[1:]): c.assume(c.zvars[a] >= c.zvars[b])
    elif order == 'asc':
        for a, b in zip(idx, idx[1:]): c.assume(c.zvars[a] <= c.zvars[b])
    return idx


def numbers(c, idx, fixed=None):
    """the input numbers of a path: SymNum (symbolic) or int (concrete); fixed positions are plain ints"""
    res = []
    for i, j in enumerate(idx):
        if fixed and i in fixed:
            res.append(int(fixed[i]))
        else:
            res.append(c.num(j))
    return res


def present(pres, vals, names=None):
    """-> (items argument, valueof argument or None, item->z3 term function factory input)"""
    n = len(vals)
    if pres == 'list':
        return list(vals), None
    if pres == 'tuple':
        return tuple(vals), None
    if pres == 'arr':
        if CONCRETE:
            import numpy
            return numpy.array(vals), None
        return npshim.array(vals), None
    names = list(names if names is not None else NAMES[:n])
    d = dict(zip(names, vals))
    if pres == 'dict':
        return d, None
    if pres == 'nv':
        return names, d.__getitem__
    if pres == 'intnames':       # names are small integers unrelated to the values
        names = list(range(1, n + 1)); d = dict(zip(names, vals))
        return names, d.__getitem__
    if pres == 'intdict':
        names = list(range(n, 0, -1)); d = dict(zip(names, vals))
        return d, None
    if pres == 'falsynames':     # names that are falsy in Python: the integer 0 (falsynames) / the empty string (falsydict)
        names = names_of(pres, n); d = dict(zip(names, vals))
        return names, d.__getitem__
    if pres == 'falsydict':
        names = names_of(pres, n); d = dict(zip(names, vals))
        return d, None
    raise KeyError(pres)


def named(pres):
    return pres in ('nv', 'dict', 'intnames', 'intdict', 'falsynames', 'falsydict')


def names_of(pres, n):
    if pres in ('nv', 'dict'): return list(NAMES[:n])
    if pres == 'intnames': return list(range(1, n + 1))
    if pres == 'intdict': return list(range(n, 0, -1))
    if pres == 'falsynames': return list(range(n))                       # integer names including 0 (homogeneous: CKK sorts the names)
    if pres == 'falsydict': return (list(NAMES[:n - 1]) + [''])          # string names including the empty string
    return None


# ---------------------------------------------------------------- z3 helpers and oracles

def zsum(l):
    l = list(l)
    if len(l) == 1: return l[0]
    return z3.Sum(l) if l else z3.IntVal(0)


def zmax(xs):
    m = xs[0]
    for x in xs[1:]: m = z3.If(x > m, x, m)
    return m


def zmin(xs):
    m = xs[0]
    for x in xs[1:]: m = z3.If(x < m, x, m)
    return m


def zabs(x):
    return z3.If(x >= 0, x, -x)


def rgs(n, k):
    """restricted growth strings: all partitions of n positions into at most k blocks"""
    def rec(i, cur, mx):
        if i == n:
            yield tuple(cur); return
        for b in range(min(mx + 1, k - 1) + 1):
            cur.append(b)
            yield from rec(i + 1, cur, max(mx, b))
            cur.pop()
    yield from rec(0, [], -1)


def block_sums(a, xs, k):
    return [zsum(xs[i] for i in range(len(a)) if a[i] == b) for b in range(k)]


def objective_z(name, sums):
    """the documented quantity (value to minimise) of objective `name` on the z3 terms `sums`"""
    k = len(sums)
    if name == 'diff': return zmax(sums) - zmin(sums)
    if name == 'max': return zmax(sums)
    if name == 'min': return -zmin(sums)
    if name.startswith('klargest:'):
        kk = min(int(name.split(':')[1]), k)
        return zmax([zsum(c) for c in itertools.combinations(sums, kk)])
    if name.startswith('ksmallest:'):
        kk = min(int(name.split(':')[1]), k)
        return -zmin([zsum(c) for c in itertools.combinations(sums, kk)])
    raise KeyError(name)


def ctx_cache(key, build):
    """memoise an oracle term for the lifetime of the current exploration context (its variables are fixed)"""
    from pathsym.engine import Ctx
    c = Ctx.cur
    store = c.__dict__.setdefault('_oracle_cache', {})
    if key not in store:
        store[key] = build()
    return store[key]


def le_objective(objname, term, ss):
    """z3 formula for  term <= objective(ss)  without if-then-else min/max over ss (those make the solver crawl when there are hundreds of
    candidate partitions): max(ss) >= t  <=>  some s >= t;  -min(ss) >= t  <=>  some s <= -t;  max-min >= t  <=>  some gap >= t"""
    ss = list(ss)
    if objname == 'max':
        return z3.Or([term <= s for s in ss])
    if objname == 'min':
        return z3.Or([term <= -s for s in ss])
    if objname == 'diff':
        if len(ss) == 1:
            return term <= 0
        return z3.Or([term <= b - c for b in ss for c in ss if b is not c])
    return term <= objective_z(objname, ss)


def optimal_among_partitions(objname, result_sums, xs, k):
    """result is optimal: for every partition P of the items into <= k bins, obj(result) <= obj(P).
    The result's own objective stays a small if-then-else term; the partitions' objectives are expanded into disjunctions."""
    n = len(xs)
    mine = objective_z(objname, list(result_sums))
    if os.environ.get('VERIF_ITE_ORACLE') == '1':
        terms = ctx_cache(('opt', objname, k, n), lambda: [objective_z(objname, block_sums(a, xs, k)) for a in rgs(n, k)])
        return z3.And([mine <= t for t in terms])
    # the formula is built once per exploration context over a placeholder D and instantiated per path by substitution (done inside z3)
    def build():
        D = z3.Int('D!oracle!%s!%d!%d' % (objname, k, n))
        return D, z3.And([le_objective(objname, D, block_sums(a, xs, k)) for a in rgs(n, k)])
    D, F = ctx_cache(('optF', objname, k, n), build)
    return z3.substitute(F, (D, mine))


def multiset_eq(a, b):
    """value multisets equal (solver-decided): same length and every value occurs equally often"""
    a = list(a); b = list(b)
    if len(a) != len(b): return z3.BoolVal(False)
    if not a: return z3.BoolVal(True)
    return z3.And([zsum(z3.If(o == x, 1, 0) for o in a) == zsum(z3.If(y == x, 1, 0) for y in b) for x in b])


def sub_multiset(a, b):
    """every value occurs in a at most as often as in b"""
    a = list(a); b = list(b)
    if len(a) > len(b): return z3.BoolVal(False)
    if not a: return z3.BoolVal(True)
    return z3.And([zsum(z3.If(o == x, 1, 0) for o in a) <= zsum(z3.If(y == x, 1, 0) for y in b) for x in a])


def item_term(pres, names, zx):
    """function mapping an item found in an output bin to its z3 value term"""
    if named(pres):
        m = dict(zip(names, zx))
        return lambda it: m[it]
    return lambda it: zi(it)


def describe(lists):
    """JSON-able structural summary of output bins"""
    res = []
    for l in lists:
        row = []
        for it in l:
            if isinstance(it, SymNum):
                row.append('?')
            elif isinstance(it, (int, str)) and not isinstance(it, bool):
                row.append(it)
            else:
                try: row.append(int(it))
                except Exception: row.append(str(it))
        res.append(row)
    return res


def finite(x):
    return not (isinstance(x, float) and (math.isinf(x) or math.isnan(x)))
