"""C06 - reported sums and derived outputs always describe the returned bins."""
from .multi import job

W = 'c06'


def jobs(tier):
    J = []
    for alg in ('greedy', 'roundrobin', 'kk', 'ckk', 'snp', 'rnp', 'cbldm'):
        J.append(job(W, alg, 3, size=2)); J.append(job(W, alg, 4, size=2))
        if alg != 'cbldm':
            J.append(job(W, alg, 4, size=3, order='desc')); J.append(job(W, alg, 2, size=3))
    # tier C: repeated values, 6-7 items (the search algorithms only start to improve on their first solution there)
    for alg in ('snp', 'rnp', 'ckk', 'kk', 'greedy'):
        J.append(job(W, alg, 6, size=3, order='asc', groups=[3, 2, 1])); J.append(job(W, alg, 6, size=3, order='asc', groups=[2, 2, 2]))
    for alg in ('snp', 'rnp'):
        J.append(job(W, alg, 7, size=4, order='asc', groups=[3, 2, 2])); J.append(job(W, alg, 7, size=4, order='asc', groups=[4, 3]))
    for o in ('diff', 'min'):
        J.append(job(W, 'cg', 6, size=3, obj=o, order='asc', groups=[3, 2, 1]))
    J.append(job(W, 'multifit', 4, size=2, iterations=2)); J.append(job(W, 'multifit', 3, size=3, iterations=1))
    for o in ('diff', 'max', 'min'):
        J.append(job(W, 'dp', 3, size=2, obj=o)); J.append(job(W, 'cg', 3, size=2, obj=o)); J.append(job(W, 'cg', 4, size=3, obj=o, order='desc'))
    J.append(job(W, 'dp', 4, size=3, obj='diff', order='desc')); J.append(job(W, 'dp', 3, size=2, obj='klargest:2'))
    for alg in ('ff', 'ffd', 'bf', 'bfd', 'cdec', 'c23', 'c34'):
        J.append(job(W, alg, 3)); J.append(job(W, alg, 4))
    for B in (7, 10):
        J.append(job(W, 'bc', 3, size=B, pres='list')); J.append(job(W, 'bc', 4, size=B, pres='list'))
    for B in (7, 10, 12, 15):
        J.append(job(W, 'bc', 5, size=B, pres='list', order='desc')); J.append(job(W, 'bc', 6, size=B, pres='list', order='desc', lo=1))
    J.append(job(W, 'bc', 7, size=7, pres='list', order='desc', lo=1)); J.append(job(W, 'bc', 8, size=15, pres='list', order='desc', lo=1))
    if tier == 'thorough':
        J.append(job(W, 'bc', 7, size=10, pres='list', order='desc', lo=1)); J.append(job(W, 'bc', 8, size=7, pres='list', order='desc', lo=1))
    if tier == 'thorough':
        for alg in ('greedy', 'kk', 'ckk', 'snp', 'rnp'):
            J.append(job(W, alg, 5, size=3, order='desc')); J.append(job(W, alg, 4, size=3))
        for alg in ('ff', 'ffd', 'bf', 'bfd', 'cdec', 'c23', 'c34'):
            J.append(job(W, alg, 5)); J.append(job(W, alg, 6, order='desc'))
        for B in (12, 15, 20):
            J.append(job(W, 'bc', 7, size=B, pres='list', order='desc', lo=1))
        J.append(job(W, 'bc', 8, size=10, pres='list', order='desc', lo=1, mandatory=False)); J.append(job(W, 'cbldm', 5, size=2))
    return J


ASSUMPTIONS = ['S1 numpy shim', 'S2 exact arithmetic', 'S3 constant hash', 'S6 MIP stub for ilp',
               'exact algorithms with 3 or more bins: the quick tier compares the objective value, the bin count and the internal consistency of each output (a sums-only manager could in principle follow another optimal branch); the thorough tier demands identical multisets of sums, as the property states - this holds on the current tree on every shape explored; heuristics and 2-bin results are always compared as multisets of sums',
               'bin completion runs on value lists (named inputs: known finding under C07)']
OUTSIDE = ['more than 4-5 items (8 for bin completion)', 'ilp: ten calls on one path multiply the stub\'s free choice of the optimum; its sums are checked against its bins in C17']
