"""C01 - every partitioner returns a true partition into the requested number of bins (DESIGN.md section 4 C01)."""
from .part import job

HEUR = ('greedy', 'roundrobin', 'kk')
EXACT = ('ckk', 'snp', 'rnp')
OBJ3 = ('diff', 'max', 'min')


def jobs(tier):
    J = []
    ck = ('c01',)
    shapes = [(3, 2), (4, 2), (4, 3), (2, 1), (3, 1), (2, 3), (1, 2), (3, 4)]
    for (n, k) in shapes:
        for alg in HEUR + EXACT:
            J.append(job('C01', alg, n, k, checks=ck))
        J.append(job('C01', 'multifit', n, k, iterations=2, checks=ck))
        J.append(job('C01', 'dp', n, k, obj='diff', checks=ck))
        if k == 2:
            J.append(job('C01', 'cbldm', n, k, checks=ck))
    for (n, k) in [(3, 2), (4, 2)]:
        for pres in ('list', 'dict'):
            for alg in HEUR + EXACT + ('dp', 'cbldm'):
                J.append(job('C01', alg, n, k, pres=pres, checks=ck, **({'obj': 'diff'} if alg == 'dp' else {})))
            J.append(job('C01', 'multifit', n, k, pres=pres, iterations=2, checks=ck))
    for o in ('max', 'min', 'klargest:2', 'ksmallest:2'):
        J.append(job('C01', 'dp', 4, 3, obj=o, checks=ck))
    for (n, k) in [(3, 2), (4, 3), (3, 4), (2, 1)]:
        for o in OBJ3:
            for mask in range(16):
                J.append(job('C01', 'cg', n, k, obj=o, cg_mask=mask, checks=ck))
    for pres in ('list', 'dict'):
        J.append(job('C01', 'cg', 3, 2, obj='diff', cg_mask=11, pres=pres, checks=ck))
    for (n, k) in [(3, 2), (3, 3), (2, 3)]:
        for o in ('diff', 'min', 'klargest:2'):
            J.append(job('C01', 'ilp', n, k, obj=o, checks=ck))
    # tier C: 6-8 items taking two or three distinct symbolic values (ties everywhere), and 4-5 bins
    for alg in HEUR + EXACT + ('dp', 'cg'):
        kw = {'obj': 'diff'} if alg in ('dp', 'cg') else {}
        if alg == 'cg': kw['cg_mask'] = 11
        for (n, k, g) in ((6, 3, [2, 2, 2]), (7, 4, [4, 3]), (7, 4, [3, 4]), (8, 5, [5, 3])):
            if alg == 'dp' and n > 6: continue
            if alg == 'ckk' and k > 3: continue        # CKK enumerates k! pairings per node: a single 7-item path takes seconds from 4 bins on
            J.append(job('C01', alg, n, k, order='asc', groups=g, checks=ck, **kw))
    for g in ([2, 8], [4, 6], [6, 4], [1, 9]):      # multifit with its default ten iterations on 10 items taking two distinct values
        J.append(job('C01', 'multifit', 10, 3, order='desc', groups=g, checks=ck))
    for it in (2, 4):    # three distinct values: affordable with a few bisection steps only
        J.append(job('C01', 'multifit', 7, 3, order='desc', groups=[1, 2, 4], iterations=it, checks=ck))
    for alg in EXACT:
        if alg != 'ckk': J.append(job('C01', alg, 7, 4, order='asc', groups=[3, 2, 2], checks=ck))
        J.append(job('C01', alg, 4, 4, order='desc', checks=ck))
        J.append(job('C01', alg, 4, 5, order='desc', checks=ck))
    if tier == 'thorough':
        for (n, k) in [(5, 2), (5, 3), (5, 4)]:
            for alg in HEUR + EXACT:
                J.append(job('C01', alg, n, k, order='desc', checks=ck))
            J.append(job('C01', 'cg', n, k, obj='diff', cg_mask=11, order='desc', checks=ck))
        # multifit with its default ten iterations on 8-10 items with repeated values: does not finish within its budget
        # (bug hunting only: an unfinished shape is excluded from the stated bound, but a model found on the way is still reported)
        J.append(job('C01', 'multifit', 10, 3, order='desc', groups=[2, 4, 4], checks=ck, mandatory=False))
        J.append(job('C01', 'multifit', 8, 3, order='desc', groups=[2, 3, 3], checks=ck, mandatory=False))
        J.append(job('C01', 'cbldm', 5, 2, checks=ck))
        J.append(job('C01', 'cbldm', 6, 2, order='desc', checks=ck))
    return J


ASSUMPTIONS = ['S1 numpy shim', 'S2 exact arithmetic for float64 sums < 2^53', 'S3 constant hash of symbolic numbers',
               'S6 MIP contract stub for ilp']
OUTSIDE = ['more than 4 items in the quick tier, more than 6 in the thorough tier', 'RNP with more than 5 bins',
           'multifit with more than 2 binary-search iterations (see C08 for 1-3 and the default)']
