"""Run the repository's pinned test suite and compare with the stable-pass list of /root/.vp/BASELINE.json.
usage: python tools/baseline.py [repo dir]   (exit 0 iff every stable-pass test passes)"""
import json, subprocess, sys, tempfile, os, xml.etree.ElementTree as ET
repo = sys.argv[1] if len(sys.argv) > 1 else '/repo'
base = json.load(open('/root/.vp/BASELINE.json'))
with tempfile.TemporaryDirectory() as d:
    x = os.path.join(d, 'j.xml')
    subprocess.run(['/venv/bin/python', '-m', 'pytest', '-q', '-p', 'no:cacheprovider', '--timeout=900',
                    '--continue-on-collection-errors', '--junitxml=' + x], cwd=repo, capture_output=True, text=True)
    passed = set()
    for tc in ET.parse(x).getroot().iter('testcase'):
        if not any(ch.tag in ('failure', 'error', 'skipped') for ch in tc):
            passed.add(tc.get('classname') + '::' + tc.get('name'))
missing = [t for t in base['stable_pass'] if t not in passed]
print('stable-pass tests passing: %d/%d' % (len(base['stable_pass']) - len(missing), len(base['stable_pass'])))
for m in missing: print('  NOT PASSING:', m)
sys.exit(1 if missing else 0)
