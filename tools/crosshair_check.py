"""Run the CrossHair twins (crosscheck/ch_kernels.py) and report per function: confirmed / refuted / inconclusive.
usage: python tools/crosshair_check.py [timeout per condition]      -> JSON on stdout"""
import subprocess, sys, os, json, re, time
HERE = os.path.dirname(os.path.dirname(os.path.abspath(__file__)))
per = sys.argv[1] if len(sys.argv) > 1 else '60'
py = os.path.join(HERE, '.venv', 'bin', 'python')
t0 = time.time()
r = subprocess.run([py, '-c', 'import crosshair'], capture_output=True)
if r.returncode != 0:
    subprocess.run([os.path.join(HERE, '.venv', 'bin', 'pip'), 'install', '-q', '--no-index', '--find-links', '/opt/veriftools/wheels', 'crosshair-tool'],
                   capture_output=True, env=dict(os.environ, PIP_NO_INDEX='1'))
p = subprocess.run([py, '-m', 'crosshair', 'check', '--report_all', '--per_condition_timeout', per, os.path.join(HERE, 'crosscheck', 'ch_kernels.py')],
                   capture_output=True, text=True, cwd=HERE, timeout=3600)
res = {}
src = open(os.path.join(HERE, 'crosscheck', 'ch_kernels.py')).read().split('\n')
defs = [(i + 1, m.group(1)) for i, l in enumerate(src) for m in [re.match(r'def (\w+)\(', l)] if m and not m.group(1).startswith('_')]
for line in (p.stdout + p.stderr).splitlines():
    m = re.match(r'.*ch_kernels\.py:(\d+): (\w+): (.*)', line)
    if not m: continue
    ln = int(m.group(1)); fn = [n for (l, n) in defs if l <= ln][-1]
    msg = m.group(3)
    verdict = 'confirmed' if 'Confirmed over all paths' in msg else ('refuted' if m.group(2) == 'error' else 'inconclusive')
    res[fn] = {'verdict': verdict, 'message': msg[:160]}
out = {'tool': 'crosshair-tool 0.0.110', 'per_condition_timeout_s': int(per), 'functions': res, 'wall_s': round(time.time() - t0, 1),
       'vacuity_guard_ok': res.get('reachability_twin', {}).get('verdict') == 'refuted'}
print(json.dumps(out))
