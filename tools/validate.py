"""Validate MANIFEST.json and every evidence file against the schemas in /root/.vp (python3-vt has jsonschema)."""
import json, glob, sys, os
import jsonschema
HERE = os.path.dirname(os.path.dirname(os.path.abspath(__file__)))
ok = True
jsonschema.validate(json.load(open(HERE + '/MANIFEST.json')), json.load(open('/root/.vp/MANIFEST.schema.json')))
es = json.load(open('/root/.vp/EVIDENCE.schema.json'))
for f in sorted(glob.glob(HERE + '/evidence/*.json')):
    try:
        jsonschema.validate(json.load(open(f)), es)
    except Exception as e:
        ok = False; print('INVALID', f, str(e)[:200])
props = [json.loads(l)['id'] for l in open(HERE + '/properties.jsonl')]
man = json.load(open(HERE + '/MANIFEST.json'))
claimed = {c['property_id'] for c in man['checks']}; na = {x['property_id'] for x in man.get('not_applicable', [])}
missing = [p for p in props if p not in claimed and p not in na]
print('manifest ok; evidence files valid' if ok else 'PROBLEMS', '; unaccounted properties:', missing)
sys.exit(0 if ok and not missing else 1)
