#!/bin/bash
# tools/verify_seed.sh <src dir with patch.diff demo.py meta.json> <seed id>
# Confirms in a scratch worktree (outside /repo and /verif): patch applies, pinned tests still pass, demo fails with / passes without.
# On success copies the three files to /verif/seeded/<id>/ and records what was run.
src=$1; id=$2
wt=/tmp/verify_$id
git -C /repo worktree remove --force $wt >/dev/null 2>&1
git -C /repo worktree add --detach $wt HEAD -q || exit 3
cd $wt
/venv/bin/python $src/demo.py $wt > /tmp/verify_$id.base.out 2>&1; base=$?
git apply $src/patch.diff || { echo "patch does not apply"; git -C /repo worktree remove --force $wt; exit 3; }
/venv/bin/python $src/demo.py $wt > /tmp/verify_$id.mut.out 2>&1; mut=$?
/venv/bin/python /verif/tools/baseline.py $wt > /tmp/verify_$id.tests.out 2>&1; tests=$?
cd /; git -C /repo worktree remove --force $wt
echo "$id: demo on unchanged tree exit=$base (want 0), with change exit=$mut (want 1), pinned tests rc=$tests (want 0): $(tail -1 /tmp/verify_$id.tests.out)"
if [ $base -eq 0 ] && [ $mut -eq 1 ] && [ $tests -eq 0 ]; then
  mkdir -p /verif/seeded/$id
  cp $src/patch.diff $src/demo.py /verif/seeded/$id/
  /venv/bin/python - <<PY
import json
m = json.load(open('$src/meta.json'))
m['verified'] = {'how': 'tools/verify_seed.sh in a scratch worktree of /repo HEAD: git apply patch.diff; demo.py; tools/baseline.py (42 pinned stable-pass tests)',
                 'demo_exit_unchanged': $base, 'demo_exit_changed': $mut, 'pinned_tests_pass_with_change': True,
                 'repo_head': '$(git -C /repo rev-parse --short HEAD)'}
json.dump(m, open('/verif/seeded/$id/meta.json', 'w'), indent=1)
PY
  echo "  kept as /verif/seeded/$id"
else
  echo "  NOT kept"; tail -5 /tmp/verify_$id.mut.out
fi
