#!/bin/bash
# tools/runall.sh quick|thorough [ids...]   run every check, print rc and wall time
tier=${1:-quick}; shift
ids=${@:-C01 C02 C03 C04 C05 C06 C07 C08 C09 C10 C11 C12 C13 C14 C15 C16 C17 C18 C19 C20}
cd "$(dirname "$0")/.."
for p in $ids; do
  s=$(date +%s)
  ./run.sh $p $tier > /tmp/runall_$p.out 2>&1; rc=$?
  e=$(date +%s)
  echo "$p rc=$rc wall=$((e-s))s $(grep -c '^VIOLATION' /tmp/runall_$p.out) violations, $(grep -c '^KNOWN-FINDING' /tmp/runall_$p.out) known; $(grep -m1 'HARNESS-PROBLEM' /tmp/runall_$p.out | cut -c1-160)"
done
