"""Sensitivity trial: apply single-edit mutants (and the seeded patches under /verif/seeded) to /repo one at a time, run the
checks expected to catch them, and undo.  Never commits anything in /repo.
usage: python tools/mutants.py [--tests] [--tier quick] [id ...]"""
import subprocess, sys, os, json, time
REPO = '/repo'; VERIF = os.path.dirname(os.path.dirname(os.path.abspath(__file__)))
M = [
 ("M1_ff_strict_fit", "prtpy/packing/first_fit.py", "if binner.sums(bins)[ibin] + value <= binsize:", "if binner.sums(bins)[ibin] + value < binsize:", ["C09", "C14"]),
 ("M2_greedy_no_reverse", "prtpy/partitioning/greedy.py", "for item in sorted(items, key=binner.valueof, reverse=True):", "for item in sorted(items, key=binner.valueof):", ["C08", "C14"]),
 ("M3_kk_same_order", "prtpy/partitioning/karmarkar_karp_sy.py", "binner.combine_bins(bins1, numbins-i-1, bins2, i)", "binner.combine_bins(bins1, i, bins2, i)", ["C08"]),
 ("M4_obj_fastpath", "prtpy/objectives.py", "return sums[-1] - sums[0] if are_sums_in_ascending_order else max(sums) - min(sums)", "return sums[-1] - sums[1] if are_sums_in_ascending_order else max(sums) - min(sums)", ["C20"]),
 ("M5_cg_fastbound", "prtpy/partitioning/complete_greedy.py", "new_smallest_sum = min(current_sums[0]+binner.valueof(next_item), current_sums[1])", "new_smallest_sum = current_sums[0]", ["C02"]),
 ("M6_cbldm_prune", "prtpy/partitioning/cbldm.py", "if 2 * max_m - sum_mi > self.len_delta:", "if 2 * max_m - sum_mi >= self.len_delta:", ["C12"]),
 ("M7_ietree_bound", "prtpy/inclusion_exclusion_tree.py", "sum(map(self.valueof,current_node.cur_set + current_node.remaining_numbers)) < self.lower_bound:", "sum(map(self.valueof,current_node.cur_set + current_node.remaining_numbers)) <= self.lower_bound:", ["C13"]),
 ("M8_shallow_copy", "prtpy/binners.py", "return (np.array(sums), list(map(list, lists)))", "return (np.array(sums), list(lists))", ["C16"]),
 ("M9_c34_threshold", "prtpy/packing/cflz_covering.py", "medium_items = [item for item in items if binsize/3 <= binner.valueof(item) < binsize/2]", "medium_items = [item for item in items if binsize/3 < binner.valueof(item) < binsize/2]", ["C05", "C14"]),
 ("M11_lb_minmax_plus1", "prtpy/objectives.py", "return max(current_largest_sum, np.ceil((sum(sums)+sum_of_remaining_items)/len(sums)))", "return max(current_largest_sum, np.ceil((sum(sums)+sum_of_remaining_items)/len(sums))+1)", ["C13"]),
 ("M12_bf_first_fit", "prtpy/packing/best_fit.py", "if new_sum <= binsize and new_sum > best_bin[1]:", "if new_sum <= binsize and best_bin[0] == -1:", ["C14"]),
 ("M13_cover_gt", "prtpy/packing/greedy_covering.py", "if binner.sums(bins)[-1] >= binsize:", "if binner.sums(bins)[-1] > binsize:", ["C14"]),
 ("M14_c23_largest_last", "prtpy/packing/cflz_covering.py", "            smallest_item = items[-1]\n            binner.add_item_to_bin(bins, smallest_item, -1)\n            del items[-1]", "            smallest_item = items[0]\n            binner.add_item_to_bin(bins, smallest_item, -1)\n            del items[0]", ["C10", "C14"]),
 ("M15_bc_prune_gt", "prtpy/packing/bin_completion.py", "                    if partial_lower_bound >= best_numbins_so_far:\n                        logging.info(\n                            f\"Redundant", "                    if partial_lower_bound + 1 >= best_numbins_so_far:\n                        logging.info(\n                            f\"Redundant", ["C04"]),
 ("M16_ckk_bound", "prtpy/partitioning/complete_karmarkar_karp_sy.py", "lower_bound = -(max_sums_flattened - (sum_sums_flattened - max_sums_flattened) // (numbins - 1))", "lower_bound = -(max_sums_flattened - (sum_sums_flattened - max_sums_flattened) // numbins)", ["C02", "C13"]),
 ("M17_snp_window", "prtpy/partitioning/sequential_number_partitioning_sy.py", "        lower_bound=(t - (current_numbins - 1) * best_difference_so_far) / current_numbins, \n", "        lower_bound=(t - (current_numbins - 2) * best_difference_so_far) / current_numbins, \n", ["C02"]),
 ("M18_dp_skip_last_bin", "prtpy/partitioning/dynamic_programming.py", "            for ibin in range(numbins):\n                next_state = list(record.state)", "            for ibin in range(max(1, numbins - (1 if len(items) > 4 else 0))):\n                next_state = list(record.state)", ["C02"]),
 ("M19_oversize_ge", "prtpy/packing/best_fit.py", "        if value > binsize:", "        if value > binsize and ibin_guard(bins):", []),
]
M = [m for m in M if m[0] != "M19_oversize_ge"]


def sh(cmd, **kw):
    return subprocess.run(cmd, shell=True, capture_output=True, text=True, **kw)


def clean():
    sh('git -C %s checkout -- .' % REPO)


def run_checks(props, tier):
    res = {}
    for p in props:
        t = time.time()
        r = sh('./run.sh %s %s' % (p, tier), cwd=VERIF)
        viol = [l for l in r.stdout.splitlines() if l.startswith('VIOLATION')]
        res[p] = {'rc': r.returncode, 'violations': len(viol), 'wall': round(time.time() - t, 1),
                  'first': next((l for l in r.stdout.splitlines() if l.strip().startswith('job=')), '')[:160],
                  'problem': next((l for l in r.stdout.splitlines() if l.startswith('HARNESS-PROBLEM')), '')[:200]}
    return res


def main():
    args = [a for a in sys.argv[1:] if not a.startswith('--')]
    tier = 'quick'
    if '--tier' in sys.argv: tier = sys.argv[sys.argv.index('--tier') + 1]; args = [a for a in args if a != tier]
    tests = '--tests' in sys.argv
    allp = '--all' in sys.argv
    assert sh('git -C %s status --porcelain' % REPO).stdout.strip() == '', '/repo is not clean'
    out = {}
    todo = []
    for mid, f, old, new, props in M:
        if args and not any(a in mid for a in args): continue
        todo.append((mid, 'edit', (f, old, new), props))
    sd = os.path.join(VERIF, 'seeded')
    if os.path.isdir(sd):
        for d in sorted(x for x in os.listdir(sd) if os.path.isdir(os.path.join(sd, x))):
            if args and not any(a in d for a in args): continue
            meta = json.load(open(os.path.join(sd, d, 'meta.json')))
            todo.append((d, 'patch', os.path.join(sd, d, 'patch.diff'), meta.get('checks') or [meta['property']]))
    for mid, kind, spec, props in todo:
        try:
            if kind == 'edit':
                f, old, new = spec
                src = open(os.path.join(REPO, f)).read()
                assert src.count(old) == 1, '%s: pattern occurs %d times' % (mid, src.count(old))
                open(os.path.join(REPO, f), 'w').write(src.replace(old, new))
            else:
                r = sh('git -C %s apply %s' % (REPO, spec)); assert r.returncode == 0, r.stderr
            entry = {}
            if tests:
                r = sh('/venv/bin/python %s/tools/baseline.py' % VERIF); entry['tests_pass'] = r.returncode == 0
            if allp:
                props = ['C%02d' % i for i in range(1, 21) if os.path.exists(os.path.join(VERIF, 'harness', 'c%02d.py' % i))]
            entry['checks'] = run_checks(props, tier)
            entry['caught_by'] = [p for p, v in entry['checks'].items() if v['rc'] == 1]
            out[mid] = entry
            print(mid, 'tests_pass=%s' % entry.get('tests_pass'), 'caught_by=%s' % entry['caught_by'],
                  {p: (v['rc'], v['wall']) for p, v in entry['checks'].items()}, flush=True)
            for p, v in entry['checks'].items():
                if v['rc'] == 1: print('    ', p, v['first'])
                if v['rc'] == 2: print('    ', p, v['problem'])
        finally:
            clean()
    json.dump(out, open('/tmp/mutants_result.json', 'w'), indent=1)
    if '--table' in sys.argv:
        write_table(out, todo, tier)


def write_table(out, todo, tier):
    """seeded/RESULTS.md: which check caught which change (regenerated, never hand-edited)"""
    lines = ['# Sensitivity trial (%s tier)' % tier, '',
             'Regenerated by `tools/mutants.py --table` against /repo at %s. Each change is applied to /repo, the listed checks are run, and the change is undone.' % sh('git -C %s rev-parse --short HEAD' % REPO).stdout.strip(),
             '"caught" = the check exits 1 with a VIOLATION that replays on the real code.', '',
             '| change | breaks | needs | checks run | caught by | first violation |', '|---|---|---|---|---|---|']
    sd = os.path.join(VERIF, 'seeded')
    for mid, kind, spec, props in todo:
        e = out.get(mid)
        if not e: continue
        if kind == 'patch':
            meta = json.load(open(os.path.join(sd, mid, 'meta.json')))
            title = meta.get('title', ''); needs = meta.get('needs', ''); brk = meta.get('property', '')
        else:
            title = '`%s`: `%s` -> `%s`' % (spec[0].split('/')[-1], spec[1].strip()[:60].replace('|', '/'), spec[2].strip()[:60].replace('|', '/')); needs = ''; brk = ','.join(props)
        first = next((v['first'].strip() for p, v in e['checks'].items() if v['rc'] == 1), '')
        other = '; '.join('%s exit %d %s' % (p, v['rc'], v['problem'][:80]) for p, v in e['checks'].items() if v['rc'] not in (0, 1))
        lines.append('| %s: %s | %s | %s | %s | %s | %s %s |' % (mid, title.replace('|', '/')[:140], brk, needs.replace('|', '/').replace('\n', ' ')[:200], ' '.join(e['checks']),
                                                              ' '.join(e['caught_by']) or '**none**', first.replace('|', '/')[:160], other))
    open(os.path.join(sd, os.environ.get('VERIF_TABLE_NAME', 'RESULTS.md')), 'w').write('\n'.join(lines) + '\n')
    print('wrote seeded/' + os.environ.get('VERIF_TABLE_NAME', 'RESULTS.md'))


if __name__ == '__main__':
    main()
