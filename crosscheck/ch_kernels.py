"""CrossHair twins (cross-check, thorough tier): integer-only kernels of prtpy under a second, independent symbolic
executor (crosshair-tool, z3 per path).  The numpy shim runs in RAW mode (plain Python numbers in list-backed arrays),
so CrossHair's own symbolic ints flow through the real prtpy code.  Only "Confirmed over all paths" counts."""
import sys, os
sys.path.insert(0, os.environ.get('PRTPY_REPO', '/repo'))
sys.path.insert(0, os.path.dirname(os.path.dirname(os.path.abspath(__file__))))
from pathsym import npshim
npshim.RAW = True
import prtpy
npshim.install()
import logging
logging.disable(logging.CRITICAL)
from prtpy.packing import first_fit, best_fit
from typing import List

NAMES = ['a', 'b', 'c', 'd']


def _pack(alg, B, vals):
    d = dict(zip(NAMES, vals))
    return prtpy.pack(alg, B, NAMES[:len(vals)], valueof=d.__getitem__, outputtype=prtpy.out.PartitionAndSumsTuple), d


def first_fit_any_fit_invariant(a: int, b: int, c: int, d: int, B: int) -> bool:
    """
    pre: B > 0 and 0 <= a <= B and 0 <= b <= B and 0 <= c <= B and 0 <= d <= B
    post: _
    """
    (sums, lists), v = _pack(first_fit.online, B, [a, b, c, d])
    ok = sorted(x for l in lists for x in l) == NAMES
    s = [sum(v[x] for x in l) for l in lists]
    for i in range(len(lists)):
        ok = ok and s[i] <= B and s[i] == sums[i]
        for j in range(i + 1, len(lists)):
            ok = ok and s[i] + v[lists[j][0]] > B
    return ok


def best_fit_feasible(a: int, b: int, c: int, B: int) -> bool:
    """
    pre: B > 0 and 0 <= a <= B and 0 <= b <= B and 0 <= c <= B
    post: _
    """
    (sums, lists), v = _pack(best_fit.online, B, [a, b, c])
    ok = sorted(x for l in lists for x in l) == NAMES[:3]
    for i, l in enumerate(lists):
        ok = ok and sum(v[x] for x in l) <= B and len(l) > 0
    return ok


def greedy_gap_at_most_largest_item(a: int, b: int, c: int, d: int) -> bool:
    """
    pre: a >= 0 and b >= 0 and c >= 0 and d >= 0
    post: _
    """
    v = dict(zip(NAMES, [a, b, c, d]))
    sums, lists = prtpy.partition(prtpy.partitioning.greedy, 2, NAMES, valueof=v.__getitem__, outputtype=prtpy.out.PartitionAndSumsTuple)
    s = [sum(v[x] for x in l) for l in lists]
    return sorted(x for l in lists for x in l) == NAMES and len(lists) == 2 and max(s) - min(s) <= max(a, b, c, d)


def roundrobin_cardinalities(a: int, b: int, c: int, d: int) -> bool:
    """
    pre: a >= 0 and b >= 0 and c >= 0 and d >= 0
    post: _
    """
    v = dict(zip(NAMES, [a, b, c, d]))
    sums, lists = prtpy.partition(prtpy.partitioning.roundrobin, 3, NAMES, valueof=v.__getitem__, outputtype=prtpy.out.PartitionAndSumsTuple)
    s = [sum(v[x] for x in l) for l in lists]
    lens = [len(l) for l in lists]
    return max(lens) - min(lens) <= 1 and s[0] >= s[1] >= s[2]


def objectives_on_three_sums(x: int, y: int, z: int) -> bool:
    """
    pre: x >= 0 and y >= 0 and z >= 0
    post: _
    """
    O = prtpy.obj
    s = [x, y, z]
    ok = O.MaximizeSmallestSum.value_to_minimize(s) == -min(x, y, z)
    ok = ok and O.MinimizeLargestSum.value_to_minimize(s) == max(x, y, z)
    ok = ok and O.MinimizeDifference.value_to_minimize(s) == max(x, y, z) - min(x, y, z)
    ok = ok and O.MinimizeKLargestSums(2).value_to_minimize(s) == x + y + z - min(x, y, z)
    ok = ok and O.MaximizeKSmallestSums(2).value_to_minimize(s) == -(x + y + z - max(x, y, z))
    ok = ok and O.MinimizeKLargestSums(5).value_to_minimize(s) == x + y + z
    return ok


def objectives_sorted_fast_path(x: int, y: int, z: int) -> bool:
    """
    pre: 0 <= x <= y <= z
    post: _
    """
    O = prtpy.obj
    s = (x, y, z)
    return (O.MaximizeSmallestSum.value_to_minimize(s, True) == -x and O.MinimizeLargestSum.value_to_minimize(s, True) == z
            and O.MinimizeDifference.value_to_minimize(s, True) == z - x and O.MinimizeKLargestSums(2).value_to_minimize(s, True) == y + z
            and O.MaximizeKSmallestSums(2).value_to_minimize(s, True) == -(x + y))


def reachability_twin(x: int, y: int) -> bool:
    """
    The vacuity guard: this postcondition is false for some inputs, and CrossHair must say so.
    pre: x >= 0 and y >= 0
    post: _
    """
    return prtpy.obj.MinimizeDifference.value_to_minimize([x, y]) != 3
